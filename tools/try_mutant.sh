#!/bin/sh
# usage: try_mutant.sh <patch-file> <ID> [<ID>...]  — applies a patch to /repo, runs quick checks, reverts.
patch="$1"; shift
git -C /repo diff --quiet || { echo "/repo not clean"; exit 2; }
git -C /repo apply "$patch" || { echo "patch does not apply"; exit 2; }
for id in "$@"; do
  out=$(cd /verif && VERIF_OUT=/tmp/mutant-out ./check "$id" quick 2>&1); rc=$?
  echo "== $id exit=$rc"; echo "$out" | grep -E "VIOLATION|HARNESS|violation in run|KNOWN" | head -6
done
git -C /repo checkout -- .
