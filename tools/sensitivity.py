#!/usr/bin/env python3
"""Runs every patch in a directory of mutants against the checks, in a scratch copy of /repo and of
the simulator (so /repo and /verif/sim/target are not touched), and prints a markdown table.

usage: sensitivity.py <dir-with-*.diff or seeded/*/patch.diff> [--checks C01,C02] [--all] [--tests]
"""
import subprocess, sys, os, glob, json, shutil, re
V = "/verif"
S = os.environ.get("SENS_DIR", "/tmp/sens")
ALL = ["C01","C02","C03","C04","C05","C06","C07","C08","C09","C10","C11","C12","C13","C15","C16","C17","C18"]

def sh(cmd, cwd=None, timeout=3600):
    return subprocess.run(cmd, shell=True, cwd=cwd, capture_output=True, text=True, timeout=timeout)

def setup():
    os.makedirs(S, exist_ok=True)
    if not os.path.isdir(f"{S}/repo"):
        sh(f"git -C /repo worktree add --detach {S}/repo HEAD")
        sh(f"cp -r /repo/target {S}/repo/target")
    else:
        sh("git checkout -q --detach && git reset -q --hard && git clean -qfd -e target", cwd=f"{S}/repo")
        head = sh("git -C /repo rev-parse HEAD").stdout.strip()
        sh(f"git checkout -q --detach {head}", cwd=f"{S}/repo")
    os.makedirs(f"{S}/sim", exist_ok=True)
    # SENS_SIM_SRC: evaluate an older version of the simulator (e.g. an extracted `git archive`)
    simsrc = os.environ.get("SENS_SIM_SRC", f"{V}/sim")
    sh(f"rsync -a --delete --exclude target {simsrc}/ {S}/sim/")
    t = open(f"{S}/sim/Cargo.toml").read().replace('path = "/repo"', f'path = "{S}/repo"')
    open(f"{S}/sim/Cargo.toml", "w").write(t)
    if not os.path.isdir(f"{S}/sim/target"):
        sh(f"cp -r {V}/sim/target {S}/sim/target")

def run_mutant(patch, checks, with_tests):
    name = os.path.basename(patch)[:-5] if not patch.endswith("patch.diff") else os.path.basename(os.path.dirname(patch))
    sh("git reset -q --hard && git clean -qfd -e target", cwd=f"{S}/repo")
    a = sh(f"git apply {patch}", cwd=f"{S}/repo")
    if a.returncode != 0:
        return name, "patch does not apply", {}, ""
    tests = "-"
    if with_tests:
        t = sh("CARGO_NET_OFFLINE=true cargo test --workspace --no-fail-fast --offline 2>&1 | grep -E '^test result' | awk '{p+=$4; f+=$6} END{print p\" passed, \"f\" failed\"}'", cwd=f"{S}/repo")
        tests = t.stdout.strip()
    b = sh("CARGO_NET_OFFLINE=true cargo build --release --offline 2>&1 | tail -3", cwd=f"{S}/sim")
    if "error" in b.stdout:
        return name, tests, {}, "sim build failed: " + b.stdout[-300:]
    res = {}
    for c in checks:
        r = sh(f"VERIF_DIR={V} VERIF_OUT={S}/out {S}/sim/target/release/ggrs-sim check {c} quick", cwd=S)
        classes = sorted(set(re.findall(r"class=([^ ]+)", r.stdout)))
        res[c] = (r.returncode, classes[:3])
    sh("git reset -q --hard", cwd=f"{S}/repo")
    return name, tests, res, ""

def main():
    args = sys.argv[1:]
    src = args[0]
    with_tests = "--tests" in args
    extra = []
    for a in args:
        if a.startswith("--checks"):
            extra = a.split("=")[1].split(",")
    patches = sorted(glob.glob(f"{src}/*.diff")) + sorted(glob.glob(f"{src}/*/patch.diff"))
    only = [a.split("=")[1] for a in args if a.startswith("--only=")]
    if only:
        patches = [p for p in patches if any(o in p for o in only)]
    setup()
    print("| mutant | existing tests | own check | other checks that catch it | first violation classes |")
    print("|---|---|---|---|---|")
    for p in patches:
        base = os.path.basename(p) if not p.endswith("patch.diff") else os.path.basename(os.path.dirname(p))
        own = base[:3] if re.match(r"C\d\d", base) else None
        checks = ALL if "--all" in args else sorted(set(([own] if own else []) + extra))
        name, tests, res, err = run_mutant(p, checks, with_tests)
        if err:
            print(f"| {name} | {tests} | {err} | | |"); sys.stdout.flush(); continue
        ownres = res.get(own, (None, []))
        ownstr = {0: "MISSED", 1: "caught", 2: "harness error", None: "-"}.get(ownres[0], str(ownres[0]))
        others = [c for c, (rc, _) in res.items() if c != own and rc == 1]
        classes = "; ".join(ownres[1]) if ownres[1] else "; ".join(sum([v[1] for v in res.values()], [])[:3])
        print(f"| {name} | {tests} | {ownstr} | {', '.join(others)} | {classes} |"); sys.stdout.flush()

main()
