#!/bin/sh
# usage: verify_seeded.sh <ID> <worktree>  — confirms a sub-agent's seeded change:
#  (1) patch applies to a clean HEAD, (2) existing tests pass with it, (3) demo fails with it, (4) demo passes without it.
# Copies SEEDED/ to /verif/seeded/<ID>/ on success and writes meta.json.
id="$1"; wt="$2"; out=/verif/seeded/$id
cd "$wt" || exit 2
[ -f SEEDED/patch.diff ] || { echo "no SEEDED/patch.diff"; exit 2; }
demo=$(ls SEEDED/*.rs 2>/dev/null | head -1); demoname=$(basename "$demo" .rs)
git reset -q --hard; git clean -qfd -e target -e SEEDED
cp SEEDED/*.rs tests/ 2>/dev/null
feat=""; grep -q "verif" "$demo" && feat="--features verif-hooks"
echo "== demo WITHOUT the change"
CARGO_NET_OFFLINE=true cargo test --offline $feat --test "$demoname" 2>&1 | grep -E "^test result|panicked|error(\[|:)" | head -5 > /tmp/vs-$id-without.txt; cat /tmp/vs-$id-without.txt
git apply SEEDED/patch.diff || { echo "patch does not apply"; exit 2; }
echo "== demo WITH the change"
CARGO_NET_OFFLINE=true cargo test --offline $feat --test "$demoname" 2>&1 | grep -E "^test result|panicked|error(\[|:)" | head -5 > /tmp/vs-$id-with.txt; cat /tmp/vs-$id-with.txt
echo "== existing suite WITH the change"
rm -f tests/"$demoname".rs
for try in 1 2 3 4; do
  CARGO_NET_OFFLINE=true cargo test --workspace --no-fail-fast --offline 2>&1 | grep -E "^test result" | awk '{p+=$4; f+=$6} END{print p" passed, "f" failed"}' > /tmp/vs-$id-suite.txt; cat /tmp/vs-$id-suite.txt
  grep -q "118 passed, 0 failed" /tmp/vs-$id-suite.txt && break
  # the suite binds fixed UDP ports: another run on this machine may hold them; wait and retry
  sleep 75
done
git reset -q --hard; git clean -qfd -e target -e SEEDED
ok=1
grep -q "test result: ok" /tmp/vs-$id-without.txt || ok=0
grep -q "FAILED\|failed; \|panicked" /tmp/vs-$id-with.txt || ok=0
grep -q "test result: ok" /tmp/vs-$id-with.txt && ! grep -q "FAILED" /tmp/vs-$id-with.txt && ok=0
grep -q "118 passed, 0 failed" /tmp/vs-$id-suite.txt || ok=0
echo "verified=$ok"
if [ $ok = 1 ]; then mkdir -p $out; cp SEEDED/* $out/; fi
