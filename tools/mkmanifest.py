#!/usr/bin/env python3
"""Regenerates /verif/MANIFEST.json from the table below and validates it against the schema."""
import json, subprocess, sys, os
V = os.path.dirname(os.path.dirname(os.path.abspath(__file__)))
repo_commits = subprocess.run(["git", "-C", "/repo", "log", "--format=%H %s"], capture_output=True, text=True).stdout.splitlines()
hook_commits = [l.split()[0] for l in repo_commits if " verif-hooks:" in l]

BASELINE_OFF = "cd /repo && cargo test --workspace --no-fail-fast --offline"
TRUST = ("Trusted base: the simulator (/verif/sim), the hooks behind cargo feature verif-hooks (virtual clock, seeded random stream, seeded hasher, read-only accessors), "
         "the harness game and the reference models named in DESIGN.md. Sampling, not proof: 'held' means no violation in the runs counted in the evidence file. "
         "udp_socket.rs (the OS UDP socket) is replaced by the simulated transport and is not covered.")

CHECKS = {
 "C01": dict(cat="exploration", ref="DESIGN.md §6 C01",
   technique="deterministic simulation with fault injection: seeded search over configuration x tick schedule x per-packet fault sequence; oracle = input-delay reference model + serial replay, checked at every confirmed frame",
   text="Seeded search over C01's space (2-4 peers, 1-2 local players, delays, windows >= 1, sparse on/off, both predictors, loss/dup/delay/reorder/bursts, pauses, rate ratios, up to 5000 frames) on the real sessions under a virtual clock and simulated network. After every advance_frame call every frame at or below confirmed_frame() must have been last simulated with the true inputs (input-delay reference model) and its state must equal the serial replay; peers are compared pairwise at the end. Exploration is the right level: the property quantifies over unbounded schedules and histories, which can be sampled densely but not enumerated."),
}
NOT_YET = "not claimed at this commit: the check for this property is still under construction (see DESIGN.md §6 for the planned check)"
NA = {
 "C14": "pure function of two byte strings: no clock, schedule, I/O, peer or state survives the call, so there is nothing for a simulator to schedule or inject a fault into; the technique studied here does not apply (DESIGN.md §7). Exhaustive/property-based testing or a bounded proof is the right family.",
}
props = [json.loads(l)["id"] for l in open(f"{V}/properties.jsonl")]
checks, na = [], []
for p in props:
    if p in CHECKS:
        c = CHECKS[p]
        checks.append({
            "property_id": p,
            "quick_cmd": f"./check {p} quick",
            "thorough_cmd": f"./check {p} thorough",
            "evidence_file": f"/verif/evidence/{p}.json",
            "replay_cmd_template": "./check replay {path}",
            "engine": "ggrs-sim",
            "level_claimed": {"category": c["cat"], "text": c["text"], "design_ref": c["ref"]},
            "level_note": TRUST,
            "technique": c["technique"],
        })
    else:
        na.append({"property_id": p, "reason": NA.get(p, NOT_YET)})
m = {
 "version": 1,
 "setup_cmd": "./check setup",
 "hooks": {"guard": "verif-hooks (cargo feature)", "enable": "cargo build --features verif-hooks (the simulator depends on ggrs = { path = \"/repo\", features = [\"verif-hooks\"] })",
           "baseline_off_cmd": BASELINE_OFF, "source_commits": hook_commits, "add_only": True},
 "engines": [{"name": "ggrs-sim", "path": "/verif/sim", "serves_properties": sorted(CHECKS), "kind_free_text": "hand-written discrete-event simulator (virtual clock, simulated network, seeded stateless choices, ddmin shrinker, replay files) running the real GGRS sessions"}],
 "checks": checks,
 "not_applicable": na,
 "notes": "All checks: exit 0 = held on everything explored; exit 1 = VIOLATION line with a minimised replay file that reproduced in a fresh process; exit 2 = harness error. VERIF_SEED overrides the batch seed. Known findings: /verif/known_findings.json.",
}
json.dump(m, open(f"{V}/MANIFEST.json", "w"), indent=1)
try:
    import jsonschema
    jsonschema.validate(m, json.load(open("/root/.vp/MANIFEST.schema.json")))
    print("MANIFEST.json valid;", len(checks), "checks,", len(na), "not claimed")
except ImportError:
    print("jsonschema not importable; MANIFEST written unchecked")
