#!/usr/bin/env python3
"""Regenerates /verif/MANIFEST.json from the table below and validates it against the schema."""
import json, subprocess, sys, os
V = os.path.dirname(os.path.dirname(os.path.abspath(__file__)))
repo_commits = subprocess.run(["git", "-C", "/repo", "log", "--format=%H %s"], capture_output=True, text=True).stdout.splitlines()
hook_commits = [l.split()[0] for l in repo_commits if " verif-hooks:" in l]

BASELINE_OFF = "cd /repo && cargo test --workspace --no-fail-fast --offline"
TRUST = ("Trusted base: the simulator (/verif/sim), the hooks behind cargo feature verif-hooks (virtual clock, seeded random stream, seeded hasher, read-only accessors), "
         "the harness game and the reference models named in DESIGN.md. Sampling, not proof: 'held' means no violation in the runs counted in the evidence file. "
         "udp_socket.rs (the OS UDP socket) is replaced by the simulated transport and is not covered.")

CHECKS = {
 "C01": dict(cat="exploration", ref="DESIGN.md §6 C01",
   technique="deterministic simulation with fault injection: seeded search over configuration x tick schedule x per-packet fault sequence; oracle = input-delay reference model + serial replay, checked at every confirmed frame",
   text="Seeded search over C01's space (2-4 peers, 1-2 local players, delays, windows >= 1, sparse on/off, both predictors, loss/dup/delay/reorder/bursts, pauses, rate ratios, up to 5000 frames) on the real sessions under a virtual clock and simulated network. After every advance_frame call every frame at or below confirmed_frame() must have been last simulated with the true inputs (input-delay reference model) and its state must equal the serial replay; peers are compared pairwise at the end. Exploration is the right level: the property quantifies over unbounded schedules and histories, which can be sampled densely but not enumerated."),
 "C02": dict(cat="exploration", ref="DESIGN.md §6 C02",
   technique="deterministic simulation with fault injection: request-list automaton (frame, cell content, save serial, timeline) evaluated on every call of seeded runs incl. starvation, lockstep, SyncTest and spectator sessions",
   text="Every request list returned in seeded runs over C01's space plus starvation schedules (a peer paused or black-holed for 1-50 s), lockstep sessions, SyncTest sessions and spectator sessions is executed by a harness game that checks each request against a small automaton: Save names the game's frame; Load names an earlier frame within the window whose cell holds the newest save of that frame and the state of the current timeline; Advance carries one input per player; the game ends at current_frame() having moved 0 or 1 frames (spectators: up to catchup_speed); frame 0 is saved before it is first simulated in rollback mode."),
 "C03": dict(cat="exploration", ref="DESIGN.md §6 C03",
   technique="deterministic simulation with fault injection: per-input status oracle (input-delay model + connection status accessor) on every AdvanceFrame of seeded runs; finality of sealed frames; monotone confirmed_frame()",
   text="Every (value, status) of every AdvanceFrame (first simulations and re-simulations) in seeded runs over C01's space, both predictors, is checked: Confirmed = the real input and actually received; Predicted = predictor applied to the newest received real input; Disconnected = default input with the player disconnected earlier; local players always Confirmed; frames at or below confirmed_frame() are only ever re-simulated with identical values; confirmed_frame() never decreases."),
 "C04": dict(cat="exploration", ref="DESIGN.md §6 C04",
   technique="deterministic simulation with fault injection: speculation-bound and lockstep invariants under seeded starvation schedules (pauses / one-way and two-way black holes of 1-50 simulated seconds)",
   text="Windows 0..=12 x delays x sparse saving, with one peer starved of remote input for up to 50 simulated seconds (timeouts raised so nobody is disconnected): no first simulation of a frame beyond confirmed_frame() + max_prediction, no load deeper than max_prediction, and in lockstep no Save/Load, only Confirmed/Disconnected inputs, a stalled call leaves current_frame() unchanged."),
 "C05": dict(cat="fault_enumeration", ref="DESIGN.md §6 C05",
   technique="deterministic simulation with fault injection: simulator-executed enumeration of every single fault (quick) and every pair of faults (thorough) on the first 60 packets of each link over 48 base configurations, plus seeded search over burst outages and kind-targeted loss; oracle = bounded liveness after the last fault",
   text="Fault enumeration executed against the real code: every single drop/duplicate/delay on each of the first 60 packets of every directed link of 48 base configurations (2 peers, 2 peers + spectator, 3 peers; windows 0,1,2,8; delays 0,2; sparse on/off), in the thorough tier every pair for the two-peer bases and for the host<->spectator links, plus seeded burst outages and targeted loss shorter than the timeout. After the last fault every regularly ticked session must be Running and still advancing, without any Disconnected event and with C01's timeline check on. Bounded-exhaustive within the stated bounds, sampling beyond."),
 "C13": dict(cat="exploration", ref="DESIGN.md §6 C13",
   technique="degenerate deterministic simulation (one SyncTestSession, no network, no clock): seeded configurations and inputs, injected fault = a game step whose result differs between simulations of one frame; oracle = exact detection window and first affected frame",
   text="Seeded SyncTest configurations (players 1-4, window 1-12, check distance, delay 0-6, 30-400 frames): valid ones run with a deterministic harness game and must never report a mismatch, must hand out only Confirmed inputs equal to the delayed submissions and must obey the request-list automaton; half of them get a nondeterministic step injected at a seeded frame and must report MismatchedChecksum within check_distance+2 frames naming the first affected frame and not before the frame was simulated twice; invalid configurations (check distance >= window, sparse saving) must be rejected with InvalidRequest. The simulator degenerates here (no schedule, no network) and DESIGN.md says so."),
 "C07": dict(cat="exploration", ref="DESIGN.md §6 C07",
   technique="deterministic simulation with fault injection: node death / API disconnect at seeded instants with exact virtual timestamps; oracle = two-timer reference model compared poll by poll + timeline check against the accessor's (disconnected, last_frame)",
   text="Two-peer sessions (1-2 players per side, optional spectator on the survivor, rollback and lockstep, all window/delay/sparse settings, timeouts 300-3000 ms) in which the remote stops at a seeded instant - during the handshake, at frame 0, while the survivor is paused, with some of its last packets lost - or is disconnected through disconnect_player. NetworkInterrupted and Disconnected must appear in exactly the poll the timer model predicts from the last accepted packet, once; the survivor must keep advancing; every frame up to the last one received from the victim keeps the real inputs and every later frame is re-simulated with (default, Disconnected); the survivor's spectator must be handed the same."),
 "C12": dict(cat="exploration", ref="DESIGN.md §6 C12",
   technique="deterministic simulation with fault injection: handshake packets lost/duplicated/reordered/delayed and forged replies under seeded poll cadences; oracles = per-address event grammar automaton, handshake accounting model, timer model, queue bound via accessor",
   text="Handshake stress (loss to 40 %, duplication to 20 %, 0-300 ms latency with full jitter, poll periods 1-400 ms, stray SyncReplies with never-sent nonces, never-drained sessions), silences within 200 ms of the notify delay and of the timeout, and 60-second quiet pairs. Per remote address the drained events must follow Synchronizing 1..4, Synchronized, (Interrupted Resumed)*, [Interrupted], [Disconnected]; Synchronized must come exactly with the fifth reply that matches a request really sent to that address; Running iff every address is through; advance_frame says NotSynchronized iff not Running; timers fire in the poll the model predicts; the event queue never exceeds 100."),
 "C06": dict(cat="exploration", ref="DESIGN.md §6 C06",
   technique="deterministic simulation with fault injection: spectators with seeded tick rates, pauses and catch-up settings behind lossy/reordering links; oracle = host's confirmed timeline per frame, catch-up rule, error justification, twin run without spectators",
   text="Hosts of 1-3 peers with 1-2 spectators whose tick rate is 0.25x-4x the host's, that pause for up to 3 s, with every max_frames_behind/catchup_speed setting, behind links that lose, duplicate and reorder packets; in some runs the host's other player dies. The n-th frame a spectator advances must carry the host's confirmed inputs for frame n (Disconnected exactly where the host says so), without gap or repeat, never beyond the host's confirmed frame; more than one frame per call only under the catch-up rule; PredictionThreshold only with nothing buffered; SpectatorTooFarBehind only when the host has delivered frame n+60 or later. Twin run without the spectators: the players' sealed timelines are identical."),
 "C08": dict(cat="fault_enumeration", ref="DESIGN.md §6 C08",
   technique="deterministic simulation with fault injection: forged/corrupted datagrams injected at seeded instants into live simulated sessions (twin run without them must agree) plus simulator-executed enumeration of every payload byte string up to 2 (quick) / 3 (thorough) bytes and seeded structure-aware mutations through the real decoder under a panic trap and counting allocator",
   text="The fault is a forged packet. Enumerated part: every byte string up to 3 bytes (thorough; up to 2 plus sampled 3-byte chunks in quick) and millions of structure-aware mutations of real payloads are decoded by the real codec; a panic, an abort (detected in a child process) or an allocation above 16 MiB is a violation. Live part: 10-60 forged datagrams per run (wrong number of statuses, negative start frame, garbage / enumerated / bit-flipped / truncated / wrong-size / double-size payloads on replayed real Input packets, every message kind with a wrong magic, everything from unknown addresses, raw garbage) are injected at seeded instants from the first handshake packet on, also around a peer's death; the session must not panic, and the twin run without the injections must show the same sealed timeline, the same connection events and the same progress."),
 "C09": dict(cat="exploration", ref="DESIGN.md §6 C09",
   technique="deterministic simulation with fault injection: seeded runs with desync detection on; fault = consistent divergence of one peer's game from a seeded frame; oracles = zero false alarms, bounded detection latency, checksums in the event are ones the peers really saved",
   text="False-alarm half: C01's space with detection on (intervals 1..=12, sparse on/off, lossy ChecksumReports) and deterministic games must never produce DesyncDetected - including the schedule behind the 0.11 false positive (a rollback that rewrites a reporting frame in the call that confirms it). Detection half: one peer's game diverges consistently from a seeded frame F; every peer must be told, for a frame >= F and the right address, within 1 s of its confirmed frame passing F + 4 intervals + window + delay, with checksums both sides really computed."),
 "C10": dict(cat="exploration", ref="DESIGN.md §6 C10",
   technique="deterministic simulation with fault injection: node death in 3-4 peer sessions with a per-survivor split of the dying peer's last packets; oracle = cross-survivor equality of final inputs/statuses/states for the dropped players, no panic, liveness",
   text="Three or four peers in rollback mode; one stops at a seeded instant; independently for each survivor its packets are dropped from 0-150 ms before the death, so the survivors hold different last frames for it and time it out at different instants; survivor links stay healthy. No survivor may panic, and once all have disconnected the victim their final inputs and statuses for its players and their states must agree on every frame. On the unchanged tree this is VIOLATED whenever the split is non-empty (panic in load_frame / adjust_gamestate / input queue, or silent divergence): recorded as known findings C10-cutoff-* because no small repair exists; the check stays armed for every other failure and for agreement failures without a split."),
 "C11": dict(cat="exploration", ref="DESIGN.md §6 C11",
   technique="deterministic simulation with fault injection: seeded histories of set_input_delay calls (before the first frame, several per tick, while stalled, per-player) inside lossy multi-peer runs; oracle = executable input-delay reference model checked at owner, remotes and spectators",
   text="C01's space (rollback and lockstep, 2-3 peers, 1-2 local players, spectators) with 1-8 set_input_delay calls per run at seeded instants. A 30-line reference model of the documented semantics (an increase repeats the last input for the frames it opens up, a decrease drops submissions until the queue has caught up) defines every player's true input per frame; owner, every remote and every spectator must end with it on every sealed frame, statuses must be truthful, no call may panic."),
 "C17": dict(cat="exploration", ref="DESIGN.md §6 C17",
   technique="deterministic simulation: every plan executed three times in one process with identical schedule, clock and packet fates but different hash keys (one key / fresh key per map) and different handshake random numbers; oracle = equality of request lists, events and traffic schedule",
   text="Each seeded plan from C01's space (half with 3-4 peers, several local players per peer, spectators, desync detection, rollback and lockstep) is executed three times with nothing changed except the keys of every hash map (a single key, or a fresh key per map as std's RandomState would give) and the random numbers of the handshake. The network model keys every decision on (link, per-link packet index), so the premise of the property - same packets, same order, same clock - holds by construction and is itself compared. Request lists, states, final frames, per-address event sequences with timestamps and the executed traffic schedule must be identical."),
 "C18": dict(cat="exploration", ref="DESIGN.md §6 C18",
   technique="deterministic simulation with fault injection: long simulated sessions (all-local, never-drained events, silent spectators, lost checksum reports, repeated ack outages) with every internal buffer size read through a read-only accessor after each API call and compared with configuration-only bounds",
   text="Sessions of up to 20000 frames under the conditions that make buffers grow - no remotes at all, events never drained, a spectator that stops polling, checksum reports lost, acknowledgements cut one way for up to 0.9 x timeout - with the sizes of the event queue, pending and outgoing local inputs, unacknowledged inputs, remembered received inputs, pending checksums and checksum history read after every API call and checked against bounds that depend only on the configuration; a silent spectator must have been disconnected by the 128-input cap while the host keeps running."),
 "C15": dict(cat="exploration", ref="DESIGN.md §6 C15",
   technique="deterministic simulation (fault-free, the varied dimensions are clock, latency and schedule): two peers under the documented main loop with an exactly known lead and latency on a virtual clock, per-machine wall-clock skew; oracle = derived +-1 bounds on frames_ahead/ping/frames-behind and the WaitRecommendation rules",
   text="A 495-cell grid (lead -7..=7 x symmetric latency 0-100 ms x 30/60/120 fps), each cell with seeded tick phases, poll periods of 1-2 ms, input delay and up to two days of wall-clock skew between the two machines. Because the simulator owns both clocks the true lead and the true round trip are known exactly, so on every measured tick frames_ahead() must be within one frame of the real lead (and the two sides' values must sum to within one of zero), ping within one tick of the round trip, remote_frames_behind equal to the last quality report; WaitRecommendations only with frames_ahead() >= 3, carrying it, >= 60 frames apart; no numbers from network_stats() in the first second."),
 "C16": dict(cat="exploration", ref="DESIGN.md §6 C16",
   technique="deterministic simulation: seeded SessionBuilder call sequences checked against an executable reference validity predicate, every accepted configuration then run in the simulator against matching peers; seeded misuse calls inside lossy runs with a twin run without them",
   text="Three quarters of the runs are seeded builder-call sequences over small value domains: each call must succeed or fail with InvalidRequest exactly as a 60-line predicate written from the rustdoc says, and every configuration the builder accepts is run - P2P against matching simulated peers/spectators with all oracles on, SyncTest for 60 frames, a spectator alone - and must not panic. One quarter are runs of C01's space with misuse calls at seeded ticks (input for a non-local handle, advance with a local input missing, disconnect of a local/unknown handle, delay change or stats for the wrong player type): the documented error must come back and the twin run without the calls must produce identical request lists and events. The builder predicate is a pure function; it is here as the configuration stage of simulated runs."),
}
NOT_YET = "not claimed at this commit: the check for this property is still under construction (see DESIGN.md §6 for the planned check)"
NA = {
 "C14": "pure function of two byte strings: no clock, schedule, I/O, peer or state survives the call, so there is nothing for a simulator to schedule or inject a fault into; the technique studied here does not apply (DESIGN.md §7). Exhaustive/property-based testing or a bounded proof is the right family.",
}
props = [json.loads(l)["id"] for l in open(f"{V}/properties.jsonl")]
checks, na = [], []
for p in props:
    if p in CHECKS:
        c = CHECKS[p]
        checks.append({
            "property_id": p,
            "quick_cmd": f"./check {p} quick",
            "thorough_cmd": f"./check {p} thorough",
            "evidence_file": f"/verif/evidence/{p}.json",
            "replay_cmd_template": "./check replay {path}",
            "engine": "ggrs-sim",
            "level_claimed": {"category": c["cat"], "text": c["text"], "design_ref": c["ref"]},
            "level_note": TRUST,
            "technique": c["technique"],
        })
    else:
        na.append({"property_id": p, "reason": NA.get(p, NOT_YET)})
m = {
 "version": 1,
 "setup_cmd": "./check setup",
 "hooks": {"guard": "verif-hooks (cargo feature)", "enable": "cargo build --features verif-hooks (the simulator depends on ggrs = { path = \"/repo\", features = [\"verif-hooks\"] })",
           "baseline_off_cmd": BASELINE_OFF, "source_commits": hook_commits, "add_only": True},
 "engines": [{"name": "ggrs-sim", "path": "/verif/sim", "serves_properties": sorted(CHECKS), "kind_free_text": "hand-written discrete-event simulator (virtual clock, simulated network, seeded stateless choices, ddmin shrinker, replay files) running the real GGRS sessions"}],
 "checks": checks,
 "not_applicable": na,
 "notes": "All checks: exit 0 = held on everything explored; exit 1 = VIOLATION line with a minimised replay file that reproduced in a fresh process; exit 2 = harness error. VERIF_SEED overrides the batch seed. Known findings: /verif/known_findings.json.",
}
json.dump(m, open(f"{V}/MANIFEST.json", "w"), indent=1)
try:
    import jsonschema
    jsonschema.validate(m, json.load(open("/root/.vp/MANIFEST.schema.json")))
    print("MANIFEST.json valid;", len(checks), "checks,", len(na), "not claimed")
except ImportError:
    print("jsonschema not importable; MANIFEST written unchecked")
