//! Twin runs: two executions that differ in exactly one thing and must otherwise agree.

use crate::plan::*;
use crate::types::Violation;
use crate::world::{run_plan, RunOut};

fn v(class: &str, text: String, node: usize, frame: i32) -> Violation {
    Violation { class: class.to_owned(), text, t_us: 0, node, frame }
}

/// C06: the same plan with every spectator removed. What the players simulate - the state of
/// every frame that is sealed in both runs - must be identical.
pub fn c06_twin(plan: &Plan, out: &RunOut) -> Option<Violation> {
    if matches!(plan.cfg.input_mode, InputMode::PerAttempt) {
        // the submitted values depend on how often a stalled call was retried, which attaching a
        // spectator may legitimately change (the host waits for its handshake too)
        return None;
    }
    if plan.nodes.iter().any(|n| n.tick.stop_us.is_some()) || plan.api.iter().any(|a| matches!(a.call, Api::Disconnect { handle } if handle < plan.cfg.num_players)) {
        // when a player dies or is dropped through the API, the frame at which the others cut it off depends on how far the game
        // had got, and the host waits for its spectators' handshakes before it starts
        return None;
    }
    let mut t = plan.clone();
    let keep: Vec<usize> = plan.peers();
    let n_peers = keep.len();
    // peers come first in every generated plan; make sure before dropping the tail
    if keep.iter().enumerate().any(|(i, &k)| i != k) {
        return None;
    }
    t.nodes.truncate(n_peers);
    t.links.retain(|l| l.from < n_peers && l.to < n_peers);
    t.windows.retain(|w| w.from < n_peers && w.to < n_peers);
    t.pkt_faults.retain(|f| f.from < n_peers && f.to < n_peers);
    t.injects.retain(|i| i.to < n_peers);
    t.scenario = format!("{}-twin-without-spectators", plan.scenario);
    let tout = run_plan(&t).ok()?;
    if let Some(x) = tout.violations.first() {
        return Some(v(&format!("c06.twin:{}", x.class), format!("the twin run without spectators violates {}: {}", x.class, x.text), x.node, x.frame));
    }
    for i in 0..n_peers {
        let (a, b) = (&out.nodes[i], &tout.nodes[i]);
        let common = a.sealed.min(b.sealed).max(0) as usize;
        for f in 0..=common {
            if f < a.hist.len() && f < b.hist.len() && a.hist[f] != b.hist[f] {
                return Some(v(
                    "c06.spectators_change_players",
                    format!("peer {i}: state at sealed frame {f} is {:x} with spectators attached and {:x} without", a.hist[f], b.hist[f]),
                    i,
                    f as i32,
                ));
            }
        }
    }
    None
}

/// C08: the same plan without the injected datagrams. Inputs, states and connection events
/// must be the same; forged traffic must not cost progress either.
pub fn c08_twin(plan: &Plan, out: &RunOut) -> Option<Violation> {
    if plan.injects.is_empty() || !matches!(plan.mode, Mode::Net) {
        return None;
    }
    let mut t = plan.clone();
    t.injects.clear();
    t.scenario = format!("{}-twin-without-injections", plan.scenario);
    let tout = run_plan(&t).ok()?;
    if let Some(x) = tout.violations.first() {
        return Some(v(&format!("c08.twin:{}", x.class), format!("the twin run without injections violates {}: {}", x.class, x.text), x.node, x.frame));
    }
    use crate::world::Ev;
    let key = |e: &Ev| match e {
        Ev::Synchronized { addr } => Some((0u8, *addr, 0i32)),
        Ev::Disconnected { addr } => Some((1, *addr, 0)),
        Ev::Desync { addr, frame, .. } => Some((2, *addr, *frame)),
        _ => None,
    };
    for i in 0..out.nodes.len().min(tout.nodes.len()) {
        let (a, b) = (&out.nodes[i], &tout.nodes[i]);
        let common = a.sealed.min(b.sealed).max(0) as usize;
        for f in 0..=common {
            if f < a.hist.len() && f < b.hist.len() && a.hist[f] != b.hist[f] {
                return Some(v("c08.injection_changed_inputs", format!("node {i}: state at sealed frame {f} is {:x} with the forged packets and {:x} without", a.hist[f], b.hist[f]), i, f as i32));
            }
        }
        let mut ea: Vec<_> = a.events.iter().filter_map(|(_, e)| key(e)).collect();
        let mut eb: Vec<_> = b.events.iter().filter_map(|(_, e)| key(e)).collect();
        ea.sort();
        eb.sort();
        if ea != eb {
            return Some(v("c08.injection_changed_connection_state", format!("node {i}: connection events with the forged packets {ea:?}, without {eb:?} (kind 0 Synchronized, 1 Disconnected, 2 DesyncDetected)"), i, a.final_frame));
        }
        let da: Vec<bool> = a.conn.iter().map(|c| c.0).collect();
        let db: Vec<bool> = b.conn.iter().map(|c| c.0).collect();
        if da != db {
            return Some(v("c08.injection_changed_connection_state", format!("node {i}: disconnected flags with the forged packets {da:?}, without {db:?}"), i, a.final_frame));
        }
        // progress is compared for players only: a slow spectator configured to live at the edge of
        // its 60-frame ring can be tipped over (SpectatorTooFarBehind, the recorded C05 finding) by
        // any shift in timing, including the one extra acknowledgement a forged packet may cost
        // ... and per unit of time since the session started running: a forged packet that the
        // endpoint answers (an input packet from a spectator's address is acknowledged) is one more
        // packet on a lossy link, which may legitimately make a handshake finish later
        let running_since = |n: &crate::world::NodeObs| n.events.iter().filter(|(_, e)| matches!(e, Ev::Synchronized { .. })).map(|(t, _)| *t).max().unwrap_or(0);
        // (the peers wait for each other: the game starts when the last of them is running)
        let start = |o: &RunOut| o.nodes.iter().filter(|n| n.is_peer).map(running_since).max().unwrap_or(0);
        let (ta, tb) = (out.end_us.saturating_sub(start(out)) as i64, tout.end_us.saturating_sub(start(&tout)) as i64);
        let (fa, fb) = (a.final_frame as i64, b.final_frame as i64);
        let fb = if tb > 0 && ta < tb { fb * ta / tb } else { fb };
        if a.is_peer && fa < fb - 10 - fb / 5 {
            return Some(v("c08.injection_cost_progress", format!("node {i} reached frame {fa} with the forged packets; without them it made {fb} frames in the same running time"), i, a.final_frame));
        }
    }
    None
}

/// C17: the same plan executed again with other hash keys (and per-map keys on/off) and other
/// handshake random numbers. Nothing observable may differ.
pub fn c17_twin(plan: &Plan, out: &RunOut) -> Option<Violation> {
    use crate::rng::mix;
    use crate::world::Ev;
    for j in 1..=2u64 {
        let mut t = plan.clone();
        t.cfg.hash_seed = mix(plan.cfg.hash_seed ^ (j * 0x1234_5678_9abc));
        t.cfg.rng_seed = mix(plan.cfg.rng_seed ^ (j * 0xfeed_f00d));
        t.cfg.hash_per_map = if j == 1 { !plan.cfg.hash_per_map } else { plan.cfg.hash_per_map };
        let tout = run_plan(&t).ok()?;
        if let Some(x) = tout.violations.first() {
            return Some(v(&format!("c17.twin:{}", x.class), format!("execution {j} with other hash/random seeds violates {}: {}", x.class, x.text), x.node, x.frame));
        }
        for i in 0..out.nodes.len() {
            let (a, b) = (&out.nodes[i], &tout.nodes[i]);
            if a.req_trace != b.req_trace || a.final_frame != b.final_frame {
                // find the first frame whose last-used inputs or state differ, for the report
                let f = (0..a.hist.len().min(b.hist.len())).find(|&f| a.hist[f] != b.hist[f]);
                return Some(v(
                    "c17.requests_differ",
                    format!(
                        "node {i}: the request lists differ between two executions that only differ in hash keys and handshake random numbers (final frames {} / {}, first differing state at frame {:?})",
                        a.final_frame, b.final_frame, f
                    ),
                    i,
                    f.map(|x| x as i32).unwrap_or(-1),
                ));
            }
            let addrs: std::collections::BTreeSet<u16> = a.events.iter().chain(b.events.iter()).filter_map(|(_, e)| e.addr()).collect();
            for x in addrs {
                let ea: Vec<&(u64, Ev)> = a.events.iter().filter(|(_, e)| e.addr() == Some(x)).collect();
                let eb: Vec<&(u64, Ev)> = b.events.iter().filter(|(_, e)| e.addr() == Some(x)).collect();
                if ea != eb {
                    let k = (0..ea.len().min(eb.len())).find(|&k| ea[k] != eb[k]).unwrap_or(ea.len().min(eb.len()));
                    let lo = k.saturating_sub(2);
                    return Some(v(
                        "c17.events_differ",
                        format!(
                            "node {i}, address {x}: event sequences differ between executions from event #{k} on ({} vs {} events): {:?} vs {:?}",
                            ea.len(),
                            eb.len(),
                            ea.iter().skip(lo).take(5).collect::<Vec<_>>(),
                            eb.iter().skip(lo).take(5).collect::<Vec<_>>()
                        ),
                        i,
                        a.final_frame,
                    ));
                }
            }
            let wa: Vec<&(u64, Ev)> = a.events.iter().filter(|(_, e)| e.addr().is_none()).collect();
            let wb: Vec<&(u64, Ev)> = b.events.iter().filter(|(_, e)| e.addr().is_none()).collect();
            if wa != wb {
                return Some(v("c17.events_differ", format!("node {i}: WaitRecommendation sequences differ between executions"), i, a.final_frame));
            }
        }
        if out.sched_hash != tout.sched_hash {
            return Some(v("c17.traffic_differs", "the executed schedule (which packet kinds travelled on which link, in which order) differs between executions that only differ in hash keys and handshake random numbers".to_owned(), 0, 0));
        }
    }
    None
}

/// C16, misuse half: the same plan without the misuse calls (a call that polls as a side effect
/// is replaced by a plain poll at that instant). Everything observable must be identical.
pub fn c16_twin(plan: &Plan, out: &RunOut) -> Option<Violation> {
    if !matches!(plan.mode, Mode::Net) || plan.api.is_empty() {
        return None;
    }
    let mut t = plan.clone();
    t.api = plan
        .api
        .iter()
        .filter_map(|a| match a.call {
            Api::AdvanceMissingInput => Some(ApiCall { node: a.node, at_us: a.at_us, call: Api::Poll }),
            Api::AddInputWrongHandle { .. } | Api::NetStats { .. } | Api::DisconnectMisuse { .. } | Api::SetDelayMisuse { .. } => None,
            _ => Some(a.clone()),
        })
        .collect();
    t.scenario = format!("{}-twin-without-misuse", plan.scenario);
    let tout = run_plan(&t).ok()?;
    if let Some(x) = tout.violations.first() {
        return Some(v(&format!("c16.twin:{}", x.class), format!("the twin run without misuse calls violates {}: {}", x.class, x.text), x.node, x.frame));
    }
    for i in 0..out.nodes.len() {
        let (a, b) = (&out.nodes[i], &tout.nodes[i]);
        if a.req_trace != b.req_trace || a.final_frame != b.final_frame {
            let f = (0..a.hist.len().min(b.hist.len())).find(|&f| a.hist[f] != b.hist[f]);
            return Some(v("c16.misuse_changed_behaviour", format!("node {i}: request lists differ from the run without the misuse calls (final frames {} / {}, first differing state at frame {f:?})", a.final_frame, b.final_frame), i, f.map(|x| x as i32).unwrap_or(-1)));
        }
        if a.events != b.events {
            return Some(v("c16.misuse_changed_behaviour", format!("node {i}: events differ from the run without the misuse calls"), i, a.final_frame));
        }
    }
    None
}
