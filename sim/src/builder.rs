//! C16, builder half: sequences of SessionBuilder calls against a reference validity
//! predicate written from the rustdoc; every accepted configuration is then run.

use crate::net::{FaultCounters, NetCore, SimSocket};
use crate::plan::*;
use crate::rng::mix;
use crate::types::*;
use crate::world::{guarded, panic_class, Probes, RunOut};
use ggrs::{DesyncDetection, GgrsError, PlayerType, SessionBuilder};
use std::cell::RefCell;
use std::collections::BTreeMap;
use std::rc::Rc;

#[derive(Clone, Debug, PartialEq)]
enum Kind {
    Local,
    Remote(u16),
    Spectator(u16),
}

/// The documented rules, and nothing else.
struct Model {
    num_players: usize,
    handles: BTreeMap<usize, Kind>,
    window: usize,
    delay: usize,
    fps: usize,
    desync: u32,
    sparse: bool,
    check_distance: usize,
    max_behind: usize,
    catchup: usize,
    timeout_ms: u64,
    notify_ms: u64,
}

impl Model {
    fn new() -> Self {
        Model { num_players: 2, handles: BTreeMap::new(), window: 8, delay: 0, fps: 60, desync: 0, sparse: false, check_distance: 2, max_behind: 10, catchup: 1, timeout_ms: 2000, notify_ms: 500 }
    }
    fn handle_ok(kind: &Kind, h: usize, n: usize) -> bool {
        match kind {
            Kind::Local | Kind::Remote(_) => h < n,
            Kind::Spectator(_) => h >= n,
        }
    }
    /// true = the call must succeed
    fn apply(&mut self, c: &BCall) -> bool {
        match c {
            BCall::NumPlayers(n) => {
                if *n == 0 || !self.handles.iter().all(|(h, k)| Self::handle_ok(k, *h, *n)) {
                    return false;
                }
                self.num_players = *n;
                true
            }
            BCall::AddLocal(h) => self.add(Kind::Local, *h),
            BCall::AddRemote(a, h) => self.add(Kind::Remote(*a), *h),
            BCall::AddSpectator(a, h) => self.add(Kind::Spectator(*a), *h),
            BCall::Window(w) => {
                self.window = *w;
                true
            }
            BCall::Delay(d) => {
                self.delay = *d;
                true
            }
            BCall::Fps(f) => {
                if *f == 0 {
                    return false;
                }
                self.fps = *f;
                true
            }
            BCall::Desync(d) => {
                self.desync = *d;
                true
            }
            BCall::Sparse(b) => {
                self.sparse = *b;
                true
            }
            BCall::CheckDistance(d) => {
                self.check_distance = *d;
                true
            }
            BCall::MaxFramesBehind(m) => {
                if *m < 1 || *m >= 60 {
                    return false;
                }
                self.max_behind = *m;
                true
            }
            BCall::Timeout(t) => {
                self.timeout_ms = *t;
                true
            }
            BCall::Notify(t) => {
                self.notify_ms = *t;
                true
            }
            BCall::CatchupSpeed(s) => {
                if *s < 1 {
                    return false;
                }
                self.catchup = *s;
                true
            }
        }
    }
    fn add(&mut self, k: Kind, h: usize) -> bool {
        if self.handles.contains_key(&h) || !Self::handle_ok(&k, h, self.num_players) {
            return false;
        }
        self.handles.insert(h, k);
        true
    }
    fn start_ok(&self, s: &BStart) -> bool {
        match s {
            BStart::P2P => self.desync != 1 && (0..self.num_players).all(|h| self.handles.contains_key(&h)),
            BStart::Spectator => true,
            BStart::SyncTest => self.check_distance < self.window && !self.sparse,
        }
    }
}

fn viol(class: &str, text: String, k: usize) -> Violation {
    Violation { class: class.to_owned(), text, t_us: 0, node: 0, frame: k as i32 }
}

pub fn run(plan: &Plan, calls: &[BCall], start: &BStart) -> RunOut {
    let mut v: Vec<Violation> = Vec::new();
    let mut probes = Probes::default();
    let mut model = Model::new();
    ggrs::verif::set_now_micros(0);
    ggrs::verif::set_hash_seed(plan.cfg.hash_seed);
    ggrs::verif::set_rng_state(plan.cfg.rng_seed);
    let mut b = Some(SessionBuilder::<CfgRepeat>::new());
    let mut ended = false;
    for (k, c) in calls.iter().enumerate() {
        let expect_ok = model.apply(c);
        let bb = b.take().unwrap();
        let r = guarded(move || match c {
            BCall::NumPlayers(n) => bb.with_num_players(*n),
            BCall::AddLocal(h) => bb.add_player(PlayerType::Local, *h),
            BCall::AddRemote(a, h) => bb.add_player(PlayerType::Remote(*a), *h),
            BCall::AddSpectator(a, h) => bb.add_player(PlayerType::Spectator(*a), *h),
            BCall::Window(w) => Ok(bb.with_max_prediction_window(*w)),
            BCall::Delay(d) => Ok(bb.with_input_delay(*d)),
            BCall::Fps(f) => bb.with_fps(*f),
            BCall::Desync(d) => Ok(bb.with_desync_detection_mode(if *d == 0 { DesyncDetection::Off } else { DesyncDetection::On { interval: *d - 1 } })),
            BCall::Sparse(s) => Ok(bb.with_sparse_saving_mode(*s)),
            BCall::CheckDistance(d) => Ok(bb.with_check_distance(*d)),
            BCall::MaxFramesBehind(m) => bb.with_max_frames_behind(*m),
            BCall::CatchupSpeed(s) => bb.with_catchup_speed(*s),
            BCall::Timeout(t) => Ok(bb.with_disconnect_timeout(std::time::Duration::from_millis(*t))),
            BCall::Notify(t) => Ok(bb.with_disconnect_notify_delay(std::time::Duration::from_millis(*t))),
        });
        match r {
            Err(p) => {
                v.push(viol(&panic_class(&p), format!("builder call #{k} {c:?} panicked: {}", p.0), k));
                ended = true;
                break;
            }
            Ok(Ok(nb)) => {
                if !expect_ok {
                    v.push(viol("c16.builder_accepts_invalid", format!("builder call #{k} {c:?} succeeded although the documentation requires InvalidRequest (calls so far: {:?})", &calls[..=k]), k));
                    ended = true;
                    break;
                }
                b = Some(nb);
            }
            Ok(Err(e)) => {
                if expect_ok {
                    v.push(viol("c16.builder_rejects_valid", format!("builder call #{k} {c:?} returned {e:?} although it is valid (calls so far: {:?})", &calls[..=k]), k));
                } else if !matches!(e, GgrsError::InvalidRequest { .. }) {
                    v.push(viol("c16.builder_wrong_error", format!("builder call #{k} {c:?} returned {e:?} instead of InvalidRequest"), k));
                } else {
                    *probes.extra.entry("builder_calls_rejected_as_documented").or_insert(0) += 1;
                }
                ended = true;
                break;
            }
        }
    }
    let mut sched = mix(plan.seed);
    if !ended {
        let bb = b.take().unwrap();
        let expect_ok = model.start_ok(start);
        let core = Rc::new(RefCell::new(NetCore::new(plan)));
        match start {
            BStart::P2P => {
                let sock = SimSocket { me: 0, core: core.clone() };
                match guarded(move || bb.start_p2p_session(sock)) {
                    Err(p) => v.push(viol(&panic_class(&p), format!("start_p2p_session panicked: {}", p.0), calls.len())),
                    Ok(Err(e)) => {
                        if expect_ok {
                            v.push(viol("c16.builder_rejects_valid", format!("start_p2p_session returned {e:?} for a valid configuration {calls:?}"), calls.len()));
                        } else if !matches!(e, GgrsError::InvalidRequest { .. }) {
                            v.push(viol("c16.builder_wrong_error", format!("start_p2p_session returned {e:?} instead of InvalidRequest"), calls.len()));
                        } else {
                            *probes.extra.entry("builder_starts_rejected_as_documented").or_insert(0) += 1;
                        }
                    }
                    Ok(Ok(sess)) => {
                        if !expect_ok {
                            v.push(viol("c16.builder_accepts_invalid", format!("start_p2p_session accepted an invalid configuration {calls:?}"), calls.len()));
                        } else {
                            *probes.extra.entry("builder_p2p_accepted").or_insert(0) += 1;
                            // the session that comes back is the configuration that was asked for
                            if let Some(what) = p2p_accessors_differ(&sess, &model) {
                                v.push(viol("c16.session_differs_from_configuration", format!("start_p2p_session accepted {calls:?} but the session it returned reports {what}"), calls.len()));
                            }
                            *probes.extra.entry("builder_accessors_checked").or_insert(0) += 1;
                            // run the accepted configuration against matching peers
                            if let Some(derived) = derive_plan(plan, &model) {
                                *probes.extra.entry("builder_accepted_and_run").or_insert(0) += 1;
                                match crate::world::run_plan(&derived) {
                                    Ok(out) => {
                                        sched = out.sched_hash;
                                        probes.frames_first += out.probes.frames_first;
                                        probes.rollbacks += out.probes.rollbacks;
                                        probes.max_frame = out.probes.max_frame;
                                        for x in out.violations {
                                            v.push(Violation { class: format!("c16.run:{}", x.class), text: format!("configuration {calls:?} was accepted; running it: {}", x.text), ..x });
                                        }
                                    }
                                    Err(e) => v.push(viol("c16.accepted_but_unbuildable", format!("configuration {calls:?} was accepted by the builder under test but rebuilding it for the run failed: {e}"), calls.len())),
                                }
                            }
                        }
                    }
                }
            }
            BStart::Spectator => {
                let sock = SimSocket { me: 0, core: core.clone() };
                match guarded(move || bb.start_spectator_session(1, sock)) {
                    Err(p) => v.push(viol(&panic_class(&p), format!("start_spectator_session panicked: {}", p.0), calls.len())),
                    Ok(mut s) => {
                        *probes.extra.entry("builder_spectator_started").or_insert(0) += 1;
                        for t in 0..60u64 {
                            ggrs::verif::set_now_micros(t * 16_000);
                            let r = guarded(|| {
                                s.poll_remote_clients();
                                let _ = s.events().count();
                                s.advance_frame().map(|r| r.len())
                            });
                            match r {
                                Err(p) => {
                                    v.push(viol(&panic_class(&p), format!("spectator session built from {calls:?} panicked: {}", p.0), calls.len()));
                                    break;
                                }
                                Ok(Ok(n)) => {
                                    v.push(viol("c16.spectator_advanced_without_host", format!("spectator session without a host advanced {n} requests"), calls.len()));
                                    break;
                                }
                                Ok(Err(_)) => {}
                            }
                        }
                        ggrs::verif::set_now_micros(0);
                    }
                }
            }
            BStart::SyncTest => match guarded(move || bb.start_synctest_session()) {
                Err(p) => v.push(viol(&panic_class(&p), format!("start_synctest_session panicked: {}", p.0), calls.len())),
                Ok(Err(e)) => {
                    if expect_ok {
                        v.push(viol("c16.builder_rejects_valid", format!("start_synctest_session returned {e:?} for a valid configuration {calls:?}"), calls.len()));
                    } else if !matches!(e, GgrsError::InvalidRequest { .. }) {
                        v.push(viol("c16.builder_wrong_error", format!("start_synctest_session returned {e:?} instead of InvalidRequest"), calls.len()));
                    } else {
                        *probes.extra.entry("builder_starts_rejected_as_documented").or_insert(0) += 1;
                    }
                }
                Ok(Ok(st)) => {
                    if !expect_ok {
                        v.push(viol("c16.builder_accepts_invalid", format!("start_synctest_session accepted an invalid configuration {calls:?}"), calls.len()));
                    } else {
                        if (st.num_players(), st.max_prediction(), st.check_distance(), st.current_frame()) != (model.num_players, model.window, model.check_distance, 0) {
                            v.push(viol("c16.session_differs_from_configuration", format!("start_synctest_session accepted {calls:?} but the session reports num_players {}, max_prediction {}, check_distance {}, current_frame {}", st.num_players(), st.max_prediction(), st.check_distance(), st.current_frame()), calls.len()));
                        }
                        *probes.extra.entry("builder_accepted_and_run").or_insert(0) += 1;
                        let mut d = plan.clone();
                        d.cfg.num_players = model.num_players;
                        d.cfg.max_prediction = model.window;
                        d.cfg.input_delay = model.delay;
                        d.cfg.sparse = false;
                        d.perturb.clear();
                        d.mode = Mode::SyncTest { check_distance: model.check_distance, frames: 60, expect_reject: false };
                        if let Ok(out) = crate::world::run_plan(&d) {
                            probes.frames_first += out.probes.frames_first;
                            for x in out.violations {
                                v.push(Violation { class: format!("c16.run:{}", x.class), text: format!("configuration {calls:?} was accepted; running it: {}", x.text), ..x });
                            }
                        }
                    }
                }
            },
        }
    }
    probes.extra.insert("builder_sequences", 1);
    RunOut {
        log: Vec::new(),
        violations: v,
        probes,
        counters: FaultCounters::default(),
        fired: Vec::new(),
        trace_hash: sched,
        sched_hash: mix(sched ^ format!("{calls:?}{start:?}").bytes().fold(0u64, |a, b| mix(a ^ b as u64))),
        nodes: Vec::new(),
        end_us: 0,
    }
}

/// What the accessors of a freshly built P2P session say, compared with what was configured.
fn p2p_accessors_differ(s: &ggrs::P2PSession<CfgRepeat>, m: &Model) -> Option<String> {
    let sorted = |mut v: Vec<usize>| {
        v.sort();
        v
    };
    let of = |f: &dyn Fn(&Kind) -> bool| -> Vec<usize> { m.handles.iter().filter(|(_, k)| f(k)).map(|(h, _)| *h).collect() };
    let locals = of(&|k| *k == Kind::Local);
    let remotes = of(&|k| matches!(k, Kind::Remote(_)));
    let specs = of(&|k| matches!(k, Kind::Spectator(_)));
    if s.num_players() != m.num_players {
        return Some(format!("num_players() = {} (configured {})", s.num_players(), m.num_players));
    }
    if s.max_prediction() != m.window || s.in_lockstep_mode() != (m.window == 0) {
        return Some(format!("max_prediction() = {}, in_lockstep_mode() = {} (configured window {})", s.max_prediction(), s.in_lockstep_mode(), m.window));
    }
    if sorted(s.local_player_handles()) != locals || sorted(s.remote_player_handles()) != remotes || sorted(s.spectator_handles()) != specs {
        return Some(format!("local/remote/spectator handles {:?} / {:?} / {:?} (configured {locals:?} / {remotes:?} / {specs:?})", s.local_player_handles(), s.remote_player_handles(), s.spectator_handles()));
    }
    if s.num_spectators() != specs.len() {
        return Some(format!("num_spectators() = {} (configured {})", s.num_spectators(), specs.len()));
    }
    for a in 0..8u16 {
        let want: Vec<usize> = m.handles.iter().filter(|(_, k)| matches!(k, Kind::Remote(x) | Kind::Spectator(x) if *x == a)).map(|(h, _)| *h).collect();
        if sorted(s.handles_by_address(a)) != want {
            return Some(format!("handles_by_address({a}) = {:?} (configured {want:?})", s.handles_by_address(a)));
        }
    }
    let want = if m.desync == 0 { DesyncDetection::Off } else { DesyncDetection::On { interval: m.desync - 1 } };
    if s.desync_detection() != want {
        return Some(format!("desync_detection() = {:?} (configured {want:?})", s.desync_detection()));
    }
    if s.current_frame() != 0 || s.frames_ahead() != 0 {
        return Some(format!("current_frame() = {}, frames_ahead() = {} before the first call", s.current_frame(), s.frames_ahead()));
    }
    let has_remote = !remotes.is_empty() || !specs.is_empty();
    let st = s.current_state();
    if (st == ggrs::SessionState::Synchronizing) != has_remote {
        return Some(format!("current_state() = {st:?} with {} remote endpoints", remotes.len() + specs.len()));
    }
    None
}

/// Turns an accepted P2P configuration into a runnable plan: node 0 is the session under test,
/// every remote address becomes a peer that owns the handles registered for it, every
/// spectator address a spectator of node 0. Addresses used both ways cannot be mapped.
fn derive_plan(base: &Plan, m: &Model) -> Option<Plan> {
    let mut remote_addrs: Vec<u16> = Vec::new();
    let mut spec_addrs: Vec<u16> = Vec::new();
    for k in m.handles.values() {
        match k {
            Kind::Remote(a) if !remote_addrs.contains(a) => remote_addrs.push(*a),
            Kind::Spectator(a) if !spec_addrs.contains(a) => spec_addrs.push(*a),
            _ => {}
        }
    }
    if remote_addrs.iter().any(|a| spec_addrs.contains(a)) {
        return None;
    }
    // a spectator registered under several handles for one address is one endpoint
    let mut nodes: Vec<NodeSpec> = Vec::new();
    let per = 1_000_000 / m.fps.max(1) as u64;
    let tick = |start: u64| TickSpec { start_us: start, period_us: per.max(1000), ..Default::default() };
    let locals0: Vec<usize> = m.handles.iter().filter(|(h, k)| **k == Kind::Local && **h < m.num_players).map(|(h, _)| *h).collect();
    nodes.push(NodeSpec { kind: NodeKind::Peer { locals: locals0 }, tick: tick(0), wall_offset_ms: 1_000_000, drain: true, timeout_ms: None, notify_ms: None });
    remote_addrs.sort();
    for (i, a) in remote_addrs.iter().enumerate() {
        let locals: Vec<usize> = m.handles.iter().filter(|(_, k)| **k == Kind::Remote(*a)).map(|(h, _)| *h).collect();
        nodes.push(NodeSpec { kind: NodeKind::Peer { locals }, tick: tick(1000 * (i as u64 + 1)), wall_offset_ms: 2_000_000, drain: true, timeout_ms: None, notify_ms: None });
    }
    // spectator handles at the host must be num_players + k in the world's own builder: only
    // configurations with at most one handle per spectator address are rebuilt faithfully
    let n_peers = nodes.len();
    spec_addrs.sort();
    for (i, _a) in spec_addrs.iter().enumerate() {
        nodes.push(NodeSpec { kind: NodeKind::Spectator { host: 0, max_frames_behind: m.max_behind, catchup_speed: m.catchup }, tick: tick(500 * (i as u64 + 1)), wall_offset_ms: 3_000_000, drain: true, timeout_ms: None, notify_ms: None });
    }
    let mut links = Vec::new();
    for a in 0..nodes.len() {
        for b in 0..nodes.len() {
            let ok = a != b && ((a < n_peers && b < n_peers) || (a == 0 && b >= n_peers) || (b == 0 && a >= n_peers));
            if ok {
                links.push(LinkSpec { from: a, to: b, base_us: 10_000, jitter_us: 3000, loss_ppm: 20_000, dup_ppm: 0 });
            }
        }
    }
    let mut p = base.clone();
    p.scenario = "c16-accepted-configuration".into();
    p.mode = Mode::Net;
    p.cfg.num_players = m.num_players;
    p.cfg.max_prediction = m.window;
    p.cfg.input_delay = m.delay;
    p.cfg.fps = m.fps;
    p.cfg.sparse = m.sparse;
    p.cfg.desync_interval = if m.desync == 0 { 0 } else { m.desync - 1 };
    p.cfg.timeout_ms = m.timeout_ms;
    p.cfg.notify_ms = m.notify_ms;
    p.nodes = nodes;
    p.links = links;
    p.windows.clear();
    p.pkt_faults.clear();
    p.api.clear();
    p.injects.clear();
    p.perturb.clear();
    p.horizon_us = 120 * per.max(1000) + 600_000;
    p.oracle = OracleCfg::default();
    // in a third of the runs with a remote peer, that peer dies while the application of node 0
    // hangs for longer than both deadlines (a coarse poll): whatever the two settings are, the
    // first poll afterwards must cope
    if n_peers >= 2 && mix(base.seed ^ 0xc16) % 3 == 0 {
        let t_kill = 900_000 + mix(base.seed ^ 0xc17) % 600_000;
        let hang = (m.timeout_ms.max(m.notify_ms) + 300) * 1000;
        // with several remote peers all of them die at that instant, so that node 0 is the only
        // survivor: one of several dying is the premise of C10, whose recorded defect (survivors
        // that hold different amounts of the dead peer's input) this sub-batch must stay clear of
        for k in 1..n_peers {
            p.nodes[k].tick.stop_us = Some(t_kill);
        }
        p.nodes[0].tick.pauses.push((t_kill + 20_000, t_kill + 20_000 + hang));
        p.horizon_us = p.horizon_us.max(t_kill + 20_000 + hang + 1_500_000);
        p.scenario = "c16-accepted-configuration+remote-dies-while-host-hangs".into();
    }
    Some(p)
}
