//! Per-property batch specifications.

use crate::check::PropSpec;
use crate::plan::Plan;
use crate::world::RunOut;

fn faults_fired(o: &RunOut) -> u64 {
    let c = &o.counters;
    c.dropped_random + c.dropped_window + c.dropped_explicit + c.delayed_window + c.delayed_explicit + c.duplicated_random + c.duplicated_explicit + c.reordered
}

fn nt_c01(_p: &Plan, o: &RunOut) -> bool {
    o.probes.rollbacks >= 1 && faults_fired(o) >= 1 && o.probes.sealed_frames >= 50
}

fn nt_c02(_p: &Plan, o: &RunOut) -> bool {
    o.probes.frames_first >= 30 && (o.probes.rollbacks >= 1 || o.probes.stalls_lockstep >= 1 || o.probes.spectator_frames >= 1)
}
fn nt_c03(_p: &Plan, o: &RunOut) -> bool {
    o.probes.predicted_inputs >= 10 && o.probes.rollbacks >= 1 && o.probes.sealed_frames >= 50
}
fn nt_c04(_p: &Plan, o: &RunOut) -> bool {
    o.probes.stalls_prediction_limit + o.probes.stalls_lockstep >= 10 && o.probes.frames_first >= 30
}
fn nt_c05(_p: &Plan, o: &RunOut) -> bool {
    faults_fired(o) >= 1
}
fn nt_c06(_p: &Plan, o: &RunOut) -> bool {
    o.probes.spectator_frames >= 50 && (faults_fired(o) >= 1 || o.probes.spectator_catchup_calls >= 1)
}
fn nt_c07(p: &Plan, o: &RunOut) -> bool {
    o.probes.frames_first >= 20 && (o.probes.events.get("disconnected").copied().unwrap_or(0) >= 1 || !p.api.is_empty())
}
fn nt_c08(p: &Plan, o: &RunOut) -> bool {
    !matches!(p.mode, crate::plan::Mode::Net) || o.counters.injected >= 5
}
fn nt_c09(_p: &Plan, o: &RunOut) -> bool {
    o.counters.sent_by_kind[crate::mirror::K_CHECKSUM as usize] >= 3 && o.probes.rollbacks >= 1
}
fn nt_c10(_p: &Plan, o: &RunOut) -> bool {
    o.counters.dropped_window >= 1 && o.probes.frames_first >= 60
}
fn nt_c11(p: &Plan, o: &RunOut) -> bool {
    o.probes.api_calls >= 1 && p.api.iter().any(|a| a.at_us > 500_000) && o.probes.sealed_frames >= 50
}
fn nt_c15(_p: &Plan, o: &RunOut) -> bool {
    o.probes.extra.get("timesync_ticks_measured").copied().unwrap_or(0) >= 100
}
fn nt_c16(p: &Plan, o: &RunOut) -> bool {
    match &p.mode {
        crate::plan::Mode::Builder { calls, .. } => calls.len() >= 3,
        _ => o.probes.extra.get("misuse_calls").copied().unwrap_or(0) + o.probes.extra.get("misuse_advance_missing_input").copied().unwrap_or(0) >= 2,
    }
}
fn nt_c17(p: &Plan, o: &RunOut) -> bool {
    o.probes.rollbacks >= 1 && (p.nodes.len() >= 3 || p.cfg.num_players >= 3)
}
fn nt_c18(_p: &Plan, o: &RunOut) -> bool {
    o.probes.max_frame >= 600
}
fn nt_c12(_p: &Plan, o: &RunOut) -> bool {
    o.probes.events.get("synchronized").copied().unwrap_or(0) >= 1 && (faults_fired(o) >= 1 || o.counters.injected >= 1)
}
fn nt_c13(p: &Plan, o: &RunOut) -> bool {
    matches!(p.mode, crate::plan::Mode::SyncTest { expect_reject: false, .. }) && o.probes.frames_first >= 20
}

const BASE_ASSUME: &[&str] = &["the harness game is the only game: deterministic hash chain over (value, disconnected flag)", "virtual clock: all reads within one API call return the same instant", "udp_socket.rs is outside the simulator"];

pub const SPECS: &[PropSpec] = &[PropSpec {
    id: "C01",
    level: "exploration",
    quick_runs: 16_000,
    thorough_runs: 400_000,
    default_seed: 101,
    rule: "runs are generated from C01's space (2-4 peers, 1-2 local players each, delays 0-6, windows 1-12, sparse on/off, both predictors, five input modes, tick jitter/pauses/rate ratios, per-packet loss <= 25 %, duplication <= 10 %, latency 0-150 ms with jitter, burst outages short of the timeout, 50-5000 frames, 0-2 spectators); a run is non-trivial if it had >= 1 rollback, >= 1 network fault that actually fired and >= 50 frames sealed against the serial replay; distinct = distinct 64-bit hash of the executed schedule; swarm switches of every generic plan: desync detection on in a quarter of the runs, a game that keeps its own snapshots (None data in the cells) in a fifth, local inputs submitted in seeded order with throw-away submissions first in 30 %; the game's checksum carries the state hash in the low half, in the high half only, or in both halves of the u128 (a third each)",
    nontrivial: nt_c01,
    required_probes: &["rollbacks", "rollbacks_at_full_window", "stalls_at_prediction_limit", "lists_with_two_loads", "drop_random", "duplicate_random", "reordered_deliveries", "drop_window", "sealed_frames", "input_ring_wraps"],
    assumptions: BASE_ASSUME,
    twin: None,
},
PropSpec {
    id: "C02",
    level: "exploration",
    quick_runs: 16_000,
    thorough_runs: 400_000,
    default_seed: 202,
    rule: "mix of C01's space (with lockstep allowed), starvation schedules (a peer paused or cut off for 1-50 s with raised timeouts, all windows 0..=12), pure lockstep runs, SyncTest sessions and runs with spectators; every request list of every call goes through the request-list automaton; non-trivial = >= 30 frames simulated and at least one rollback, lockstep stall or spectator frame; distinct = distinct executed-schedule hash",
    nontrivial: nt_c02,
    required_probes: &["rollbacks", "rollbacks_at_full_window", "stalls_at_prediction_limit", "stalls_lockstep", "lists_with_two_loads", "spectator_frames", "saves"],
    assumptions: BASE_ASSUME,
    twin: None,
},
PropSpec {
    id: "C03",
    level: "exploration",
    quick_runs: 16_000,
    thorough_runs: 400_000,
    default_seed: 303,
    rule: "C01's space, a fifth of the runs biased to held inputs (long prediction streaks), a fifth two-peer runs in which one side dies or is disconnected through the API (the Disconnected clause needs a disconnect); every (value, status) of every AdvanceFrame is checked against the input-delay model and the connection status read through the accessor; non-trivial = >= 10 predicted inputs, >= 1 rollback, >= 50 sealed frames; distinct = distinct executed-schedule hash",
    nontrivial: nt_c03,
    required_probes: &["predicted_inputs", "rollbacks", "sealed_frames", "frames_resimulated"],
    assumptions: BASE_ASSUME,
    twin: None,
},
PropSpec {
    id: "C04",
    level: "exploration",
    quick_runs: 14_000,
    thorough_runs: 350_000,
    default_seed: 404,
    rule: "windows 0..=12 x delays x sparse x starvation (one peer paused or black-holed one/both ways for 1-50 s, timeouts raised to 120 s); non-trivial = >= 10 stalled calls (prediction limit or lockstep) and >= 30 frames simulated; distinct = distinct executed-schedule hash; desync detection on in a quarter of the runs (lockstep must not save for checksum reports either)",
    nontrivial: nt_c04,
    required_probes: &["stalls_at_prediction_limit", "stalls_lockstep", "rollbacks_at_full_window", "drop_window"],
    assumptions: BASE_ASSUME,
    twin: None,
},
PropSpec {
    id: "C05",
    level: "fault_enumeration",
    quick_runs: 0,
    thorough_runs: 0,
    default_seed: 505,
    rule: "part (a), enumerated: 48 base configurations (2 peers / 2 peers + spectator / 3 peers; window 0,1,2,8; delay 0,2; sparse on/off), every single fault (drop / duplicate / delay by 250 ms) on each of the first 60 packets of every directed link (handshake included); thorough additionally every PAIR of such faults for the two-peer bases and for the host<->spectator links; part (b), seeded: sampled pairs/triples and random one-way/two-way burst outages and kind-targeted loss (acks, inputs, handshake packets) shorter than timeout - 600 ms - 2 x latency and than 100 frame-times. Oracle (only after the last fault): every session Running and still advancing (>= 5 frames in the second half of the 3 s after the last fault; a wedge advances none), spectators caught up, no Disconnected event, C01's timeline check on. Non-trivial = at least one injected fault fired; distinct = distinct executed-schedule hash",
    nontrivial: nt_c05,
    required_probes: &["drop_explicit", "duplicate_explicit", "delay_explicit", "drop_window", "spectator_frames", "stalls_lockstep", "sealed_frames"],
    assumptions: &["liveness is demanded only after the last injected fault, of sessions that are ticked regularly", "3 s = 15 retry periods of 200 ms", "fault windows stay below the disconnect timeout and below the 128-input cap towards spectators: beyond that a disconnect is the specified outcome"],
    twin: None,
},
PropSpec {
    id: "C06",
    level: "exploration",
    quick_runs: 10_000,
    thorough_runs: 250_000,
    default_seed: 606,
    rule: "hosts of 1-3 peers (rollback and lockstep) with 1-2 spectators; spectator tick rate 0.25x-4x the host's, pauses 0.1-3 s, max_frames_behind 1..=59, catchup_speed 1..=70, loss up to 20 % / duplication / 150 % jitter on the host->spectator link, loss on the ack direction; in 40 % of the two-peer runs the other player dies; in a third of the three-peer runs both other players go within one poll of the host (both die at the same instant, one with its last packets lost, or the host drops both through the API in one tick: two cut-offs pending before the next rollback). Every AdvanceFrame of a spectator is checked against the host's confirmed timeline (value, Disconnected status, never beyond the host's confirmed_frame()), the catch-up rule, and the justification of PredictionThreshold / SpectatorTooFarBehind; twin run without the spectators: the players' sealed timelines must be identical. Non-trivial = >= 50 spectator frames and >= 1 fault fired or catch-up call; distinct = distinct executed-schedule hash",
    nontrivial: nt_c06,
    required_probes: &["spectator_frames", "spectator_catchup_calls", "spectator_waits", "spectator_too_far_behind", "twin_runs", "drop_random", "disconnected"],
    assumptions: BASE_ASSUME,
    twin: Some(crate::twins::c06_twin),
},
PropSpec {
    id: "C07",
    level: "exploration",
    quick_runs: 100_000,
    thorough_runs: 2_500_000,
    default_seed: 707,
    rule: "two peers with 1-2 players each, optional spectator on the survivor, windows 0..=12, delays, sparse on/off, timeouts 300-3000 ms, notify 100-800 ms, survivor tick period 4-40 ms, per-packet loss/duplication; the victim stops at a seeded instant (handshake included), some of its last packets are lost, the survivor may be paused around the death; in 30 % of the runs disconnect_player is called instead. Oracles: poll-by-poll comparison of NetworkInterrupted/NetworkResumed/Disconnected with a two-timer reference model on exact virtual timestamps, C01's timeline check with the accessor's (disconnected, last_frame), the spectator-stream check, liveness of the survivor after the disconnect. Non-trivial = a Disconnected event or API disconnect happened with >= 20 frames simulated; distinct = distinct executed-schedule hash; in 40 % of the death runs the dead peer's program is relaunched on the same address 50-900 ms later (a new magic, a handshake request every 200 ms): foreign traffic from a known address must not keep the old connection alive; in 20 % of the death runs the victim's last input packets are not lost but held up until 0.3-2.5 s after the survivor has cut it off (stragglers must change nothing)",
    nontrivial: nt_c07,
    required_probes: &["disconnected", "network_interrupted", "api_calls", "spectator_frames", "rollbacks", "stalls_lockstep"],
    assumptions: BASE_ASSUME,
    twin: None,
},
PropSpec {
    id: "C08",
    level: "fault_enumeration",
    quick_runs: 0,
    thorough_runs: 0,
    default_seed: 808,
    rule: "the fault is a forged or corrupted packet. (b) enumerated: every byte string of length <= 2 (quick; <= 3 thorough, 16 843 009 strings) and seeded chunks of the 3-byte space as Input payload against three references, plus 1 M (quick) / 10 M (thorough) structure-aware mutations of real payloads (bit flips, truncation, insertion, spliced long varints), each decoded by the real codec under a panic trap and a counting allocator (payloads whose container declares > 512 MiB go to a child process). (a) live: 10-60 injections per run into runs of C01's space and into two-peer runs with a death, at seeded instants from the first handshake packet on: real Input packets replayed with a wrong number of statuses, a negative start frame, random / enumerated / bit-flipped / truncated / wrong-size payloads; any message kind with a wrong magic after the handshake; any message kind and raw garbage from unknown addresses. Oracles: no panic, no allocation > 16 MiB, C01's timeline check, twin run without the injections: identical sealed timelines, identical Synchronized/Disconnected/DesyncDetected events, same progress. Non-trivial = a sweep chunk, or a live run in which >= 5 forged datagrams were delivered; distinct = distinct executed-schedule hash; malformed packets may piggyback an acknowledgement ahead of the genuine one and a 'disconnected' status (dropped means dropped as a whole), negative start frames come with enough extra frames to cross frame 0 (incl. i32::MIN), forgeries are also built for links on which nothing was sent yet, and a well-formed input packet may come from a spectator's address",
    nontrivial: nt_c08,
    required_probes: &["payloads_decoded", "injected_datagrams", "twin_runs", "undecodable_datagrams", "forged_from_known_address", "forged_from_unknown_address"],
    assumptions: &["a forged packet with the right address, the right magic and a well-formed envelope may refresh keep-alive timers; equality with the twin is demanded on inputs, states and connection events, not on timer-driven retransmission instants", "wrong-magic data packets are injected only after the handshake with that address completed (before that the endpoint cannot know the right magic); handshake requests, replies and keep-alives under a foreign magic are injected during the handshake as well (a peer restarted while connecting) - requests, which draw a reply, only in runs without a death"],
    twin: Some(crate::twins::c08_twin),
},
PropSpec {
    id: "C09",
    level: "exploration",
    quick_runs: 14_000,
    thorough_runs: 350_000,
    default_seed: 909,
    rule: "half of the runs: C01's space with desync detection on (interval 1..=12, sparse on/off, loss/duplication/reordering also of ChecksumReports) and deterministic games: no DesyncDetected may ever appear. Other half: saving not sparse, one peer's game computes different states from a seeded frame F on (consistently across its own re-simulations), ChecksumReports exempt from loss: every peer must receive DesyncDetected for a frame >= F involving the diverging peer before 1 s after its confirmed frame passes F + 4*interval + window + delay, carrying checksums the two peers really saved for that frame. Non-trivial = >= 3 checksum reports delivered and >= 1 rollback; distinct = distinct executed-schedule hash",
    nontrivial: nt_c09,
    required_probes: &["desync_events", "rollbacks", "drop_random", "game_perturbations_planned"],
    assumptions: BASE_ASSUME,
    twin: None,
},
PropSpec {
    id: "C10",
    level: "exploration",
    quick_runs: 40_000,
    thorough_runs: 1_000_000,
    default_seed: 1010,
    rule: "3-4 peers with 1-2 players each, rollback mode (windows 1-12), delays, sparse on/off; one peer stops at a seeded instant; independently for every survivor the dying peer's packets are dropped from 0-150 ms before its death (so survivors hold different last frames for it and time it out at different instants); links between survivors have latency and jitter, in 40 % of the runs also one loss burst of 50-700 ms (far below any timeout) around the death, and in 30 % one survivor has its own, different disconnect timeout. Oracles: no panic; once every survivor has disconnected the victim, all survivors' final inputs and statuses for the victim's players and their states agree on every frame sealed at all of them; survivors keep advancing. Non-trivial = packets of the dying peer were dropped for at least one survivor and >= 60 frames were simulated; distinct = distinct executed-schedule hash; half of the runs cut every link of the dying peer at the same instant (all survivors hold the same amount: no split, the recorded finding cannot apply); in 30 % of the runs the dying peer's last packets towards one survivor are not lost but held up for timeout + 0.1..2.5 s (stragglers that arrive after the cut-off); 'received different amounts' is measured when each survivor cuts the player off",
    nontrivial: nt_c10,
    required_probes: &["c10_runs_compared", "disconnected", "drop_window"],
    assumptions: BASE_ASSUME,
    twin: None,
},
PropSpec {
    id: "C11",
    level: "exploration",
    quick_runs: 30_000,
    thorough_runs: 800_000,
    default_seed: 1111,
    rule: "C01's space (2-3 peers, 1-2 local players, 0-2 spectators, rollback and lockstep) plus 1-8 set_input_delay(handle, 0..=6) calls per run: 20 % before the first frame, 20 % in the same tick as the previous call, the rest at seeded instants (also while stalled). Every run ends with a quiet tail of 3 s without faults. Oracle: the input-delay reference model gives the true input per player and frame; owner, remotes and spectators must end with it on every sealed frame (C01/C03/C06 checks), no call may panic, every peer must still be advancing in the quiet tail, and at its end at most (spread of the local delays + 1) frames may wait in the outgoing buffer. Non-trivial = >= 1 delay change executed after the session started plus >= 50 sealed frames; distinct = distinct executed-schedule hash; in plans with shuffled submissions half of the delay changes on peers with several local players are called between two add_local_input calls of one tick",
    nontrivial: nt_c11,
    required_probes: &["api_calls", "delay_fills", "dropped_submissions", "sealed_frames", "spectator_frames"],
    assumptions: BASE_ASSUME,
    twin: None,
},
PropSpec {
    id: "C12",
    level: "exploration",
    quick_runs: 120_000,
    thorough_runs: 3_000_000,
    default_seed: 1212,
    rule: "60 % handshake stress (2-3 peers, 0-2 spectators, loss up to 40 %, duplication up to 20 %, latency 0-300 ms with 100 % jitter, poll cadences 1-400 ms, never-drained sessions, stray SyncReplies with never-sent nonces from the right address and from strangers), 30 % silences around the notify delay and the timeout (+-200 ms) on a two-peer link, 10 % quiet pairs (two sessions that merely poll for 60 simulated seconds). Oracles: per-address event grammar automaton, handshake accounting (a reply matches iff its nonce was sent to that address and not matched before; Running iff every address has 5 matches; NotSynchronized iff not Running), poll-by-poll timer model, event queue <= 100. Non-trivial = >= 1 handshake completed and >= 1 fault or silence fired; distinct = distinct executed-schedule hash; one run in ten: a spectator that stops polling or whose packets are all lost is cut loose at the 128-input cap (60 s timeout) while a lossy, jittery link to the other player makes several frames confirm within one call; a third of those cap runs heal the spectator's way back within a few frames of the cap under a notify delay of 0.3-1.5 s (what was held up arrives right after the call that gave up); foreign-magic handshake requests from a known address, some before the genuine peer's first request; handshake links now reach 1.6 s one way (round trips far above the 200 ms retry interval); with a spectator attached half of the silences fall on the host -> spectator link (a spectator session has the same two timers)",
    nontrivial: nt_c12,
    required_probes: &["synchronized", "network_interrupted", "network_resumed", "disconnected", "drop_random", "duplicate_random", "injected_datagrams", "calls_not_synchronized"],
    assumptions: BASE_ASSUME,
    twin: None,
},
PropSpec {
    id: "C13",
    level: "exploration",
    quick_runs: 400_000,
    thorough_runs: 10_000_000,
    default_seed: 1313,
    rule: "degenerate simulation (one SyncTestSession, no network/clock): players 1-4, window 1-12, check distance 0..window-1 (valid) or >= window / sparse (must be rejected), delay 0-6, 30-400 frames; half of the valid runs inject a nondeterministic game step at a seeded frame (check distance >= 2; either every simulation of the frame differs, or only its k-th re-simulation does) and must be reported within check_distance+2 frames naming the first affected frame; the others must never report; non-trivial = valid configuration that simulated >= 20 frames; distinct = distinct (request trace, seed) hash; in 30 % of the runs the game keeps its own snapshots and saves None data with a checksum; checksum layouts as in C01; in 35 % of the runs the inputs are submitted in seeded order with throw-away submissions first (the last one counts) and, in deterministic games, every seventh tick first calls advance_frame with one input missing (InvalidRequest, nothing may change) and then submits afresh",
    nontrivial: nt_c13,
    required_probes: &["synctest_runs_with_detection", "synctest_invalid_configs_tried", "rollbacks", "synctest_calls_with_missing_input", "throwaway_submissions"],
    assumptions: &["the injected fault is a game step whose result differs between simulations of the same frame (fresh counter mixed into the state)", "no network, no clock: the technique degenerates to seeded workload + fault + oracle + replay"],
    twin: None,
},
PropSpec {
    id: "C15",
    level: "exploration",
    quick_runs: 1980,
    thorough_runs: 49_500,
    default_seed: 1515,
    rule: "fault-free grid: lead k in -7..=7 x symmetric constant latency 0,10,..,100 ms x fps {30,60,120} = 495 cells, each with seeded tick phase, poll period 1-2 ms (the documented main loop: poll often, advance once per frame), input delay and wall-clock skew of up to two days between the machines (quick: 2 seeds per cell, thorough: 100); window sized so that nobody stalls; 3 s warm-up, 5 s measurement; in a third of the runs quality reports and replies are lost for 50-450 ms windows during the warm-up (never during the measurement). On every measured tick: frames_ahead() within 1 of +k / -k, the two values sum to within 1 of zero, ping within one tick (+1 ms) of the true round trip, remote_frames_behind equals the last quality report received and is within 1 of the other side's local_frames_behind; every WaitRecommendation carries frames_ahead() >= 3 and is >= 60 frames after the previous one; network_stats() gives no numbers in the first second. Non-trivial = >= 100 measured ticks; distinct = distinct executed-schedule hash; a quarter of the cells run in lockstep (window 0, input delay = |k| + latency in frames + 3; both start level and the lagging side then misses exactly |k| ticks; the expected lead is read off the two frame counters, because whoever ticks first stalls until the other side's first inputs arrive); a fifth of the rollback cells have a third peer that dies early (same latency to both, default timeouts): the survivors start level, cut it off, and only then does one of them miss |k| ticks - the dead endpoint must not disturb what the survivors estimate about each other",
    nontrivial: nt_c15,
    required_probes: &["timesync_ticks_measured", "wait_recommendations_checked", "wait_recommendation"],
    assumptions: &["the simulated user follows the documented main loop (poll every 1-2 ms): polling only once per tick adds up to a tick of waiting to every measured round trip, which is the user's quantisation", "tolerances of +-1 frame / one tick are derived from poll granularity and integer truncation, not tuned"],
    twin: None,
},
PropSpec {
    id: "C16",
    level: "exploration",
    quick_runs: 120_000,
    thorough_runs: 3_000_000,
    default_seed: 1616,
    rule: "three quarters: seeded sequences of 1-12 SessionBuilder calls (60 % coherent configurations with up to 4 perturbing calls inserted and sometimes one removed, 40 % uniformly random) over small domains (num_players 0-4, handles 0-6, 3 addresses, window/delay 0-16, fps {0,1,60}, desync {Off, On 0, On 1, On 5}, check distance 0-17, max_frames_behind {0,1,10,59,60}, catchup {0,1,2,70}) ended by start_p2p / start_synctest / start_spectator; each call's Ok/InvalidRequest is compared with a reference predicate written from the rustdoc, and every accepted configuration is run (P2P against matching simulated peers and spectators for 120 ticks with all oracles, SyncTest for 60 frames, spectator alone for 60 polls). One quarter: runs of C01's space with 2-12 misuse calls (input for a non-local handle, advance_frame with a local input missing, disconnect of a local/unknown handle, delay change or stats for the wrong player type) that must return the documented error, with a twin run without them (identical request lists and events). Non-trivial = a builder sequence with >= 3 calls, or a misuse run in which >= 2 misuse calls executed; distinct = distinct hash of (call sequence, executed schedule); the builder domain includes with_disconnect_timeout {300,1000,2000,5000} ms and with_disconnect_notify_delay {100,500,2500,6000} ms (independent setters: the delay may exceed the timeout), and in a third of the accepted configurations with a remote peer that peer dies while node 0 hangs for longer than both deadlines; a session that comes back from the builder must report the configuration it was given (num_players, max_prediction, in_lockstep_mode, local/remote/spectator handles, handles_by_address, num_spectators, desync_detection, check_distance, frame 0, Synchronizing iff it has an endpoint); in every run of every check each peer's read-only API is exercised every 16th tick (network_stats for every handle - players and spectators, connected or long gone -, the handle lists and counts): no panic, InvalidRequest for local and unknown handles only, lists unchanged",
    nontrivial: nt_c16,
    required_probes: &["builder_sequences", "builder_calls_rejected_as_documented", "builder_starts_rejected_as_documented", "builder_accepted_and_run", "builder_accessors_checked", "builder_spectator_started", "misuse_calls", "misuse_advance_missing_input", "twin_runs"],
    assumptions: &["the reference validity predicate is written from the rustdoc of SessionBuilder", "input delay and prediction window stay within 0..=16 (a delay beyond the 128-slot input ring is outside the claim)", "an accepted configuration that registers one address both as remote and as spectator is not run (it cannot be mapped onto simulated nodes)"],
    twin: Some(crate::twins::c16_twin),
},
PropSpec {
    id: "C17",
    level: "exploration",
    quick_runs: 6000,
    thorough_runs: 150_000,
    default_seed: 1717,
    rule: "C01's space (3-4 peers in half of the plain runs, a third with desync detection on, rollback and lockstep, spectators), plus a seventh of the runs with run-time delay changes (C11's plans) and a seventh with a really diverging game and desync detection (C09's plans); every plan is executed three times in one process with the same API calls, clock readings and per-link packet fates but different hash keys (single key vs a fresh key per map) and different handshake random numbers; request lists, final frames, per-address event sequences with their timestamps and the executed traffic schedule must be identical. Non-trivial = >= 1 rollback and >= 3 nodes or >= 3 players; distinct = distinct executed-schedule hash; two sevenths of the runs are C07's and C06's plans (a player dies or is disconnected while the host serves a spectator); one run in eleven is a C12 handshake-stress plan (when a session turns Running must not depend on hash order or handshake numbers); one run in thirteen has scripted peers: both remotes of a three-peer session stop, then node 0 is handed their genuine last input packets with only the connection status changed - each reports the other's player gone, in one poll (whom node 0 drops on whose word must not depend on hash order)",
    nontrivial: nt_c17,
    required_probes: &["twin_runs", "rollbacks", "spectator_frames"],
    assumptions: BASE_ASSUME,
    twin: Some(crate::twins::c17_twin),
},
PropSpec {
    id: "C18",
    level: "exploration",
    quick_runs: 2400,
    thorough_runs: 60_000,
    default_seed: 1818,
    rule: "long runs (600-20000 frames) in six equal parts: sessions with local players only - half of them without any endpoint, half with 1-2 spectators; sessions whose events are never drained while unequal tick rates keep WaitRecommendations coming; hosts whose spectator stops polling for good; desync detection with lost ChecksumReports; repeated one-way input/ack outages of up to 0.9 x timeout; plain long runs of C01's space. After every API call the sizes read through the accessor must respect bounds that depend only on the configuration: event queue <= 100, pending local inputs <= local players, nothing queued for sending without remotes, unacknowledged inputs per endpoint <= 128 + window + 8, remembered received inputs <= 2 x max(2 x window, 129) + 4, pending checksums <= 64, checksum history <= 33; a silent spectator must have been disconnected. Non-trivial = >= 600 frames simulated; distinct = distinct executed-schedule hash",
    nontrivial: nt_c18,
    required_probes: &["silent_spectators_checked", "silent_spectators_cut_loose", "wait_recommendation", "drop_window", "input_ring_wraps", "spectator_frames"],
    assumptions: &["the allocator-slope test of the design was dropped: the harness game's own history grows with the run and cannot be separated from the session's allocations by a per-thread counter", "sizes are read through the verif-hooks accessor"],
    twin: None,
}];

/// Number of runs of a tier (the bounded-exhaustive parts fix their own counts).
pub fn runs(spec: &PropSpec, tier: &str) -> u64 {
    match spec.id {
        "C05" => crate::scenarios::c05_runs(tier),
        "C08" => crate::scenarios::c08_runs(tier),
        _ => {
            if tier == "thorough" {
                spec.thorough_runs
            } else {
                spec.quick_runs
            }
        }
    }
}

pub fn spec(id: &str) -> Option<&'static PropSpec> {
    SPECS.iter().find(|s| s.id == id)
}
