//! Per-property batch specifications.

use crate::check::PropSpec;
use crate::plan::Plan;
use crate::world::RunOut;

fn faults_fired(o: &RunOut) -> u64 {
    let c = &o.counters;
    c.dropped_random + c.dropped_window + c.dropped_explicit + c.delayed_window + c.delayed_explicit + c.duplicated_random + c.duplicated_explicit + c.reordered
}

fn nt_c01(_p: &Plan, o: &RunOut) -> bool {
    o.probes.rollbacks >= 1 && faults_fired(o) >= 1 && o.probes.sealed_frames >= 50
}

pub const SPECS: &[PropSpec] = &[PropSpec {
    id: "C01",
    level: "exploration",
    quick_runs: 6000,
    thorough_runs: 150_000,
    default_seed: 101,
    rule: "runs are generated from C01's space (2-4 peers, 1-2 local players each, delays 0-6, windows 1-12, sparse on/off, both predictors, five input modes, tick jitter/pauses/rate ratios, per-packet loss <= 25 %, duplication <= 10 %, latency 0-150 ms with jitter, burst outages short of the timeout, 50-5000 frames, 0-2 spectators); a run is non-trivial if it had >= 1 rollback, >= 1 network fault that actually fired and >= 50 frames sealed against the serial replay; distinct = distinct 64-bit hash of the executed schedule",
    nontrivial: nt_c01,
    required_probes: &["rollbacks", "rollbacks_at_full_window", "stalls_at_prediction_limit", "lists_with_two_loads", "drop_random", "duplicate_random", "reordered_deliveries", "drop_window", "sealed_frames", "input_ring_wraps"],
    assumptions: &["the harness game is the only game: deterministic hash chain over (value, disconnected flag)", "virtual clock: all reads within one API call return the same instant", "udp_socket.rs is outside the simulator"],
}];

pub fn spec(id: &str) -> Option<&'static PropSpec> {
    SPECS.iter().find(|s| s.id == id)
}
