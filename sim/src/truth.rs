//! Input-delay reference model: the sentence in C11's statement, executable.
//!
//! Per player: a submission at user frame `u` that reaches the session lands on frame
//! `u + delay`; if that frame is not beyond the last queued frame it is dropped; otherwise the
//! frames in between repeat the last value (the default before the first input) and
//! `u + delay` takes the value. A delay change alters `delay` only. `truth[f]` is therefore a
//! gapless total function of the owner's API history.

#[derive(Clone, Debug)]
pub struct DelayModel {
    pub delay: usize,
    pub last_user: i32,
    pub last_value: u32,
    /// truth[f] = the input this player really has on frame f
    pub truth: Vec<u32>,
    pub dropped: u64,
    pub filled: u64,
}

impl DelayModel {
    pub fn new(delay: usize) -> Self {
        DelayModel { delay, last_user: -1, last_value: 0, truth: Vec::new(), dropped: 0, filled: 0 }
    }

    /// An increase repeats the last input for the frames it opens up, at once (the owner
    /// announces them to the other peers in the same call); a decrease only changes where later
    /// submissions land.
    pub fn set_delay(&mut self, delay: usize) {
        if delay > self.delay && self.last_user >= 0 {
            for _ in 0..delay - self.delay {
                self.truth.push(self.last_value);
                self.filled += 1;
            }
        }
        self.delay = delay;
    }

    /// The owner called advance_frame at session frame `u` (Running, all local inputs present)
    /// having submitted `value`. Returns true if this was the first submission for `u`.
    pub fn submit(&mut self, u: i32, value: u32) -> bool {
        if u != self.last_user + 1 {
            // resubmission for a frame already registered (stalled call): first one wins
            return false;
        }
        self.last_user = u;
        let target = u as usize + self.delay;
        let queued = self.truth.len();
        if target < queued {
            self.dropped += 1;
            return true;
        }
        while self.truth.len() < target {
            self.truth.push(self.last_value);
            self.filled += 1;
        }
        self.truth.push(value);
        self.last_value = value;
        true
    }

    pub fn get(&self, f: i32) -> Option<u32> {
        if f < 0 {
            return None;
        }
        self.truth.get(f as usize).copied()
    }
}

#[cfg(test)]
mod tests {
    use super::*;
    #[test]
    fn delay_model_basics() {
        let mut m = DelayModel::new(2);
        assert!(m.submit(0, 10));
        assert_eq!(m.truth, vec![0, 0, 10]);
        assert!(!m.submit(0, 11));
        assert!(m.submit(1, 11));
        m.set_delay(4); // increase: frames 4,5 repeat 11 at once, then the new value
        assert_eq!(m.truth, vec![0, 0, 10, 11, 11, 11]);
        assert!(m.submit(2, 12));
        assert_eq!(m.truth, vec![0, 0, 10, 11, 11, 11, 12]);
        m.set_delay(0); // decrease: submissions dropped until the queue has caught up
        assert!(m.submit(3, 13));
        assert!(m.submit(4, 14));
        assert!(m.submit(5, 15));
        assert!(m.submit(6, 16));
        assert_eq!(m.truth.len(), 7);
        assert!(m.submit(7, 17));
        assert_eq!(m.truth[7], 17);
        assert_eq!(m.dropped, 4);
    }
}
