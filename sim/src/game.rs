//! The harness game and the request-list automaton (C02, parts of C03/C04).
//!
//! The game state is a hash chain over the inputs it was advanced with. The game executes the
//! requests of one call in order and checks, request by request, that doing so is well
//! defined. It never trusts GGRS for its own frame counter.

use crate::plan::PerturbMode;
use crate::rng::Roll;
use crate::types::*;
use ggrs::GgrsRequest;
use std::collections::BTreeMap;

#[derive(Clone, Copy, Debug, PartialEq, Eq)]
pub enum SessKind {
    /// rollback-mode P2P session or SyncTest session
    Rollback,
    Lockstep,
    Spectator,
}

pub struct ExecCtx {
    pub kind: SessKind,
    pub num_players: usize,
    pub max_prediction: usize,
    /// upper bound on AdvanceFrame requests per call (1 except for spectators)
    pub max_advances: usize,
    /// the first simulation of frame 0 must be preceded by a save of frame 0
    pub expect_first_save: bool,
    pub t_us: u64,
    pub node: usize,
}

#[derive(Clone, Debug)]
pub struct AdvRec {
    pub frame: i32,
    pub first: bool,
    pub inputs: Vec<(u32, St)>,
}

#[derive(Default, Clone, Debug)]
pub struct GameStats {
    pub first_sims: u64,
    pub resims: u64,
    pub rollbacks: u64,
    pub max_depth: u32,
    pub depth_eq_window: u64,
    pub saves: u64,
    pub loads: u64,
    pub double_loads: u64,
    pub empty_lists: u64,
}

pub struct Game {
    pub g: i32,
    pub state: u64,
    /// hist[f] = state at frame f on the current timeline (before frame f is advanced)
    pub hist: Vec<u64>,
    /// used[f] = inputs of the latest simulation of frame f
    pub used: Vec<Vec<(u32, St)>>,
    pub sims: Vec<u32>,
    pub serial: u64,
    /// newest save made for a frame: (state, serial)
    pub saved: BTreeMap<i32, (u64, u64)>,
    /// every checksum ever saved for a frame (pruned to a recent horizon)
    pub checksums: BTreeMap<i32, Vec<u128>>,
    /// frames below this index are sealed: later re-simulations must use identical values
    pub sealed: i32,
    pub perturb: Option<(i32, PerturbMode)>,
    /// save `None` data into the cells and restore from this game's own record of its saves
    pub own_snapshots: bool,
    /// see RunCfg::checksum_layout
    pub checksum_layout: u8,
    nondet_ctr: u64,
    pub stats: GameStats,
    pub trace: Roll,
}

impl Game {
    pub fn new() -> Self {
        Game {
            g: 0,
            state: INIT_STATE,
            hist: vec![INIT_STATE],
            used: Vec::new(),
            sims: Vec::new(),
            serial: 0,
            saved: BTreeMap::new(),
            checksums: BTreeMap::new(),
            sealed: 0,
            perturb: None,
            own_snapshots: false,
            checksum_layout: 0,
            nondet_ctr: 0,
            stats: GameStats::default(),
            trace: Roll::default(),
        }
    }

    /// The checksum this game publishes for its current state.
    pub fn checksum(&self) -> u128 {
        match self.checksum_layout {
            1 => ((self.state as u128) << 64) | (self.g as u32 as u128),
            2 => ((crate::rng::mix(self.state) as u128) << 64) | self.state as u128,
            _ => self.state as u128,
        }
    }

    fn viol(&self, ctx: &ExecCtx, class: &str, text: String, out: &mut Vec<Violation>) {
        out.push(Violation {
            class: class.to_owned(),
            text,
            t_us: ctx.t_us,
            node: ctx.node,
            frame: self.g,
        });
    }

    /// Executes one request list in order. Returns the AdvanceFrame records of this call.
    pub fn exec<C: SimCfg>(
        &mut self,
        reqs: Vec<GgrsRequest<C>>,
        ctx: &ExecCtx,
        out: &mut Vec<Violation>,
    ) -> Vec<AdvRec> {
        let g0 = self.g;
        let mut advs = Vec::new();
        let mut loads_in_list = 0;
        if reqs.is_empty() {
            self.stats.empty_lists += 1;
        }
        self.trace.add(0xA11 ^ reqs.len() as u64);
        for r in reqs {
            match r {
                GgrsRequest::SaveGameState { cell, frame } => {
                    self.trace.add_all(&[1, frame as u64]);
                    match ctx.kind {
                        SessKind::Lockstep => self.viol(
                            ctx,
                            "c04.lockstep_save",
                            format!("SaveGameState{{frame {frame}}} issued in lockstep mode"),
                            out,
                        ),
                        SessKind::Spectator => self.viol(
                            ctx,
                            "c02.spectator_save",
                            format!("SaveGameState{{frame {frame}}} issued by a spectator session"),
                            out,
                        ),
                        SessKind::Rollback => {}
                    }
                    if frame != self.g {
                        self.viol(
                            ctx,
                            "c02.save_frame",
                            format!("SaveGameState names frame {frame} but the game is at frame {}", self.g),
                            out,
                        );
                    }
                    self.serial += 1;
                    let data = if self.own_snapshots { None } else { Some(GState { frame: self.g, state: self.state, serial: self.serial }) };
                    let checksum = self.checksum();
                    cell.save(frame, data, Some(checksum));
                    self.saved.insert(frame, (self.state, self.serial));
                    self.checksums.entry(frame).or_default().push(checksum);
                    self.stats.saves += 1;
                    if self.saved.len() > 200 {
                        let cut = self.g - 100;
                        self.saved.retain(|&f, _| f >= cut);
                        let cut2 = self.g - 1500;
                        self.checksums.retain(|&f, _| f >= cut2);
                    }
                }
                GgrsRequest::LoadGameState { cell, frame } => {
                    self.trace.add_all(&[2, frame as u64]);
                    loads_in_list += 1;
                    self.stats.loads += 1;
                    if ctx.kind == SessKind::Lockstep {
                        self.viol(ctx, "c04.lockstep_load", format!("LoadGameState{{frame {frame}}} issued in lockstep mode"), out);
                    }
                    if ctx.kind == SessKind::Spectator {
                        self.viol(ctx, "c02.spectator_load", format!("LoadGameState{{frame {frame}}} issued by a spectator session"), out);
                    }
                    if frame >= self.g || frame < 0 {
                        self.viol(
                            ctx,
                            "c02.load_not_earlier",
                            format!("LoadGameState names frame {frame} but the game is at frame {}", self.g),
                            out,
                        );
                        continue;
                    }
                    let depth = self.g - frame;
                    if depth > ctx.max_prediction as i32 {
                        self.viol(
                            ctx,
                            "c04.load_depth",
                            format!(
                                "LoadGameState{{frame {frame}}} is {depth} frames behind the game's frame {} (max_prediction {})",
                                self.g, ctx.max_prediction
                            ),
                            out,
                        );
                    }
                    let loaded = if self.own_snapshots {
                        // the cell carries no data: restore from the frame number alone
                        if cell.load().is_some() {
                            self.viol(ctx, "c02.load_cell_frame", format!("cell offered for frame {frame} holds data this game never stored"), out);
                        }
                        self.saved.get(&frame).map(|&(st, ser)| GState { frame, state: st, serial: ser })
                    } else {
                        cell.load()
                    };
                    match loaded {
                        None => {
                            self.viol(ctx, "c02.load_empty", format!("cell for frame {frame} holds no state"), out);
                            continue;
                        }
                        Some(s) => {
                            if s.frame != frame {
                                self.viol(
                                    ctx,
                                    "c02.load_cell_frame",
                                    format!("cell offered for frame {frame} holds a state saved at frame {}", s.frame),
                                    out,
                                );
                                continue;
                            }
                            match self.saved.get(&frame) {
                                None => self.viol(ctx, "c02.load_never_saved", format!("frame {frame} was never saved"), out),
                                Some(&(st, ser)) => {
                                    if st != s.state || ser != s.serial {
                                        self.viol(
                                            ctx,
                                            "c02.load_stale",
                                            format!("cell for frame {frame} holds save #{} but the newest save of that frame is #{ser}", s.serial),
                                            out,
                                        );
                                    }
                                }
                            }
                            if s.state != self.hist[frame as usize] {
                                self.viol(
                                    ctx,
                                    "c02.load_timeline",
                                    format!(
                                        "cell for frame {frame} holds state {:x} but the current timeline's state at that frame is {:x}",
                                        s.state, self.hist[frame as usize]
                                    ),
                                    out,
                                );
                            }
                            self.stats.rollbacks += 1;
                            self.stats.max_depth = self.stats.max_depth.max(depth as u32);
                            if depth == ctx.max_prediction as i32 {
                                self.stats.depth_eq_window += 1;
                            }
                            self.g = frame;
                            self.state = s.state;
                        }
                    }
                }
                GgrsRequest::AdvanceFrame { inputs } => {
                    let f = self.g;
                    let inputs: Vec<(u32, St)> = inputs.into_iter().map(|(v, s)| (C::dec(v), s.into())).collect();
                    self.trace.add_all(&[3, f as u64]);
                    for (v, s) in &inputs {
                        self.trace.add_all(&[*v as u64, *s as u64]);
                    }
                    if inputs.len() != ctx.num_players {
                        self.viol(
                            ctx,
                            "c02.advance_arity",
                            format!("AdvanceFrame carries {} inputs for {} players", inputs.len(), ctx.num_players),
                            out,
                        );
                    }
                    let fu = f as usize;
                    while self.sims.len() <= fu {
                        self.sims.push(0);
                        self.used.push(Vec::new());
                    }
                    let first = self.sims[fu] == 0;
                    if first && f == 0 && ctx.expect_first_save && !self.saved.contains_key(&0) {
                        self.viol(ctx, "c02.first_frame_unsaved", "frame 0 is simulated before any save of frame 0".to_owned(), out);
                    }
                    if !first && f < self.sealed {
                        let old = &self.used[fu];
                        let same = old.len() == inputs.len() && old.iter().zip(&inputs).all(|(a, b)| a.0 == b.0);
                        if !same {
                            self.viol(
                                ctx,
                                "c03.confirmed_not_final",
                                format!("frame {f} was at or below confirmed_frame() with inputs {:?} and is re-simulated with {:?}", old, inputs),
                                out,
                            );
                        }
                    }
                    self.sims[fu] += 1;
                    if first {
                        self.stats.first_sims += 1;
                    } else {
                        self.stats.resims += 1;
                    }
                    let hashed: Vec<(u32, bool)> = inputs.iter().map(|(v, s)| (*v, *s == St::Disconnected)).collect();
                    let mut next = step_state(self.state, f, &hashed);
                    if let Some((pf, mode)) = &self.perturb {
                        match mode {
                            PerturbMode::Consistent if f >= *pf => next ^= 0x00DE_AD00_0000_0000,
                            PerturbMode::Nondet if f == *pf => {
                                self.nondet_ctr += 1;
                                next ^= crate::rng::mix(self.nondet_ctr);
                            }
                            PerturbMode::NondetOnce(k) if f == *pf && self.sims[fu] == *k => {
                                next ^= 0x0BAD_5EED_0000_0001;
                            }
                            _ => {}
                        }
                    }
                    self.used[fu] = inputs.clone();
                    self.state = next;
                    self.g = f + 1;
                    let gi = self.g as usize;
                    if self.hist.len() <= gi {
                        self.hist.resize(gi + 1, 0);
                    }
                    self.hist[gi] = next;
                    advs.push(AdvRec { frame: f, first, inputs });
                }
            }
        }
        if loads_in_list > 1 {
            self.stats.double_loads += 1;
        }
        let delta = self.g - g0;
        if delta < 0 || delta as usize > ctx.max_advances {
            self.viol(
                ctx,
                "c02.frame_delta",
                format!("the call moved the game from frame {g0} to frame {} (allowed: 0..={})", self.g, ctx.max_advances),
                out,
            );
        }
        advs
    }
}
