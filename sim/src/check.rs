//! Batch runner: seeds -> plans -> runs -> violations -> minimised replay files -> evidence.

use crate::plan::Plan;
use crate::rng::{dom, mix};
use crate::scenarios;
use crate::shrink;
use crate::types::Violation;
use crate::world::{run_plan, RunOut};
use serde_json::{json, Value};
use std::collections::{BTreeMap, BTreeSet};
use std::sync::atomic::{AtomicU64, Ordering};
use std::sync::Mutex;
use std::time::{Duration, Instant};

pub fn verif_dir() -> String {
    std::env::var("VERIF_DIR").unwrap_or_else(|_| "/verif".to_owned())
}

/// Where evidence and replay files go (VERIF_OUT lets mutant trials write elsewhere).
pub fn out_dir() -> String {
    std::env::var("VERIF_OUT").unwrap_or_else(|_| verif_dir())
}

pub struct PropSpec {
    pub id: &'static str,
    pub level: &'static str,
    pub quick_runs: u64,
    pub thorough_runs: u64,
    pub default_seed: u64,
    pub rule: &'static str,
    pub nontrivial: fn(&Plan, &RunOut) -> bool,
    /// probes that must be non-zero in a batch, else the check is a harness error (exit 2)
    pub required_probes: &'static [&'static str],
    pub assumptions: &'static [&'static str],
    /// twin run: a second plan derived from the first and a comparison of the two outcomes
    pub twin: Option<fn(&Plan, &RunOut) -> Option<Violation>>,
}

/// Runs a plan with every oracle of its property, including the twin comparison if the
/// property has one. Batch runs, the shrinker and replay all go through here.
pub fn execute(plan: &Plan) -> Result<RunOut, String> {
    let mut out = run_plan(plan)?;
    if out.violations.is_empty() {
        if let Some(tw) = crate::props::spec(&plan.property).and_then(|s| s.twin) {
            if let Some(v) = tw(plan, &out) {
                out.violations.push(v);
            }
            out.probes.extra.insert("twin_runs", 1);
        }
    }
    Ok(out)
}

pub fn run_seed(batch_seed: u64, property: &str, index: u64) -> u64 {
    mix(mix(batch_seed ^ dom(property)) ^ index.wrapping_mul(0x9E37_79B9_7F4A_7C15))
}

#[derive(Default)]
pub struct Agg {
    pub runs: u64,
    pub probes: BTreeMap<String, u64>,
    pub faults: BTreeMap<String, u64>,
    pub events: BTreeMap<String, u64>,
    pub scenarios: BTreeMap<String, u64>,
    pub sched_hashes: BTreeSet<u64>,
    pub nontrivial_hashes: BTreeSet<u64>,
    pub sim_us: u64,
    pub frames: u64,
    pub max_of: BTreeMap<String, u64>,
    pub violations: Vec<(u64, u64, Plan, Violation)>,
    pub known_seen: BTreeMap<String, u64>,
    pub errors: Vec<String>,
    pub frames_per_run: Vec<u32>,
}

fn add(m: &mut BTreeMap<String, u64>, k: &str, v: u64) {
    *m.entry(k.to_owned()).or_insert(0) += v;
}

impl Agg {
    pub fn absorb(&mut self, index: u64, seed: u64, plan: &Plan, out: &RunOut, nontrivial: bool, findings: &[Finding]) {
        self.runs += 1;
        let p = &out.probes;
        for (k, v) in [
            ("ticks", p.ticks),
            ("polls", p.polls),
            ("frames_first_simulated", p.frames_first),
            ("frames_resimulated", p.resims),
            ("rollbacks", p.rollbacks),
            ("rollbacks_at_full_window", p.rollbacks_at_window),
            ("stalls_at_prediction_limit", p.stalls_prediction_limit),
            ("stalls_lockstep", p.stalls_lockstep),
            ("calls_not_synchronized", p.not_synchronized_calls),
            ("predicted_inputs", p.predicted_inputs),
            ("lists_with_two_loads", p.double_loads),
            ("saves", p.saves),
            ("sealed_frames", p.sealed_frames),
            ("dropped_submissions", p.dropped_submissions),
            ("delay_fills", p.delay_fills),
            ("spectator_frames", p.spectator_frames),
            ("spectator_catchup_calls", p.spectator_catchup_calls),
            ("spectator_waits", p.spectator_waits),
            ("spectator_too_far_behind", p.spectator_too_far),
            ("api_calls", p.api_calls),
            ("input_ring_wraps", p.ring_wraps_input),
            ("simulator_events", p.heap_events),
        ] {
            add(&mut self.probes, k, v);
        }
        for (k, v) in &p.extra {
            add(&mut self.probes, k, *v);
        }
        let e = self.max_of.entry("max_rollback_depth".into()).or_insert(0);
        *e = (*e).max(p.max_rollback_depth as u64);
        let e = self.max_of.entry("max_frame".into()).or_insert(0);
        *e = (*e).max(p.max_frame.max(0) as u64);
        for (k, v) in &p.events {
            add(&mut self.events, k, *v);
        }
        let c = &out.counters;
        for (k, v) in [
            ("packets_sent", c.sent),
            ("packets_delivered", c.delivered),
            ("drop_random", c.dropped_random),
            ("drop_window", c.dropped_window),
            ("drop_explicit", c.dropped_explicit),
            ("delay_window", c.delayed_window),
            ("delay_explicit", c.delayed_explicit),
            ("duplicate_random", c.duplicated_random),
            ("duplicate_explicit", c.duplicated_explicit),
            ("reordered_deliveries", c.reordered),
            ("undecodable_datagrams", c.undecodable),
            ("injected_datagrams", c.injected),
        ] {
            add(&mut self.faults, k, v);
        }
        let pauses: u64 = plan.nodes.iter().map(|n| n.tick.pauses.len() as u64).sum();
        add(&mut self.faults, "node_pauses_planned", pauses);
        add(&mut self.faults, "node_kills_planned", plan.nodes.iter().filter(|n| n.tick.stop_us.is_some()).count() as u64);
        add(&mut self.faults, "api_faults_planned", plan.api.len() as u64);
        add(&mut self.faults, "game_perturbations_planned", plan.perturb.len() as u64);
        add(&mut self.scenarios, &plan.scenario, 1);
        self.sched_hashes.insert(out.sched_hash);
        if nontrivial {
            self.nontrivial_hashes.insert(out.sched_hash);
        }
        self.sim_us += out.end_us;
        self.frames += p.frames_first;
        self.frames_per_run.push(p.max_frame.max(0) as u32);
        if let Some(v) = out.violations.first() {
            if let Some(f) = match_finding(findings, &plan.property, plan, v) {
                add(&mut self.known_seen, &f.id, 1);
            } else if self.violations.len() < 64 {
                self.violations.push((index, seed, plan.clone(), v.clone()));
            }
        }
    }
    pub fn merge(&mut self, o: Agg) {
        self.runs += o.runs;
        for (k, v) in o.probes {
            add(&mut self.probes, &k, v);
        }
        for (k, v) in o.faults {
            add(&mut self.faults, &k, v);
        }
        for (k, v) in o.events {
            add(&mut self.events, &k, v);
        }
        for (k, v) in o.scenarios {
            add(&mut self.scenarios, &k, v);
        }
        for (k, v) in o.max_of {
            let e = self.max_of.entry(k).or_insert(0);
            *e = (*e).max(v);
        }
        self.sched_hashes.extend(o.sched_hashes);
        self.nontrivial_hashes.extend(o.nontrivial_hashes);
        self.sim_us += o.sim_us;
        self.frames += o.frames;
        self.violations.extend(o.violations);
        for (k, v) in o.known_seen {
            add(&mut self.known_seen, &k, v);
        }
        self.errors.extend(o.errors);
        self.frames_per_run.extend(o.frames_per_run);
    }
}

pub struct BatchResult {
    pub agg: Agg,
    pub samples: Vec<Value>,
    pub canary_pairs: u64,
    pub canary_mismatches: u64,
    pub wall_s: f64,
    pub capped: bool,
}

pub fn plan_summary(plan: &Plan) -> Value {
    json!({
        "scenario": plan.scenario,
        "seed": plan.seed,
        "players": plan.cfg.num_players,
        "nodes": plan.nodes.len(),
        "max_prediction": plan.cfg.max_prediction,
        "input_delay": plan.cfg.input_delay,
        "sparse": plan.cfg.sparse,
        "fps": plan.cfg.fps,
        "windows": plan.windows.len(),
        "pkt_faults": plan.pkt_faults.len(),
        "api_calls": plan.api.len(),
        "injections": plan.injects.len(),
        "horizon_ms": plan.horizon_us / 1000,
    })
}

/// Runs indices `0..runs` of a property on `threads` workers. A run never shares anything with
/// another run; the worker count cannot influence a run.
pub fn run_batch(spec: &PropSpec, tier: &str, batch_seed: u64, runs: u64, threads: usize, cap: Duration, findings: &[Finding]) -> BatchResult {
    let next = AtomicU64::new(0);
    let total = Mutex::new(Agg::default());
    let samples = Mutex::new(BTreeMap::<u64, Value>::new());
    let canary = Mutex::new(BTreeMap::<u64, u64>::new());
    let start = Instant::now();
    let capped = std::sync::atomic::AtomicBool::new(false);
    std::thread::scope(|sc| {
        for _ in 0..threads {
            sc.spawn(|| {
                crate::world::install_thread();
                let mut agg = Agg::default();
                loop {
                    let i = next.fetch_add(1, Ordering::Relaxed);
                    if i >= runs {
                        break;
                    }
                    if start.elapsed() > cap {
                        capped.store(true, Ordering::Relaxed);
                        break;
                    }
                    let seed = run_seed(batch_seed, spec.id, i);
                    let plan = scenarios::generate(spec.id, tier, seed, i);
                    match execute(&plan) {
                        Ok(out) => {
                            let nt = (spec.nontrivial)(&plan, &out);
                            agg.absorb(i, seed, &plan, &out, nt, findings);
                            if i < 3 {
                                samples.lock().unwrap().insert(
                                    i,
                                    json!({
                                        "index": i, "plan": plan_summary(&plan), "full_plan": plan,
                                        "outcome": {"violations": out.violations.len(), "final_frames": out.nodes.iter().map(|n| n.final_frame).collect::<Vec<_>>(),
                                                    "rollbacks": out.probes.rollbacks, "packets_sent": out.counters.sent, "packets_dropped": out.counters.dropped_random + out.counters.dropped_window + out.counters.dropped_explicit,
                                                    "simulated_ms": out.end_us / 1000, "schedule_hash": format!("{:016x}", out.sched_hash)}
                                    }),
                                );
                            }
                            if i < 32 {
                                canary.lock().unwrap().insert(i, out.trace_hash);
                            }
                        }
                        Err(e) => agg.errors.push(format!("run {i} (seed {seed}): {e}")),
                    }
                }
                total.lock().unwrap().merge(agg);
            });
        }
    });
    // determinism canary: the first runs again, on this thread, must hash identically
    crate::world::install_thread();
    let first = canary.into_inner().unwrap();
    let mut mismatches = 0;
    for (i, hsh) in &first {
        let seed = run_seed(batch_seed, spec.id, *i);
        let plan = scenarios::generate(spec.id, tier, seed, *i);
        if let Ok(out) = execute(&plan) {
            if out.trace_hash != *hsh {
                mismatches += 1;
            }
        }
    }
    let mut agg = total.into_inner().unwrap();
    agg.violations.sort_by_key(|v| v.0);
    BatchResult {
        agg,
        samples: samples.into_inner().unwrap().into_values().collect(),
        canary_pairs: first.len() as u64,
        canary_mismatches: mismatches,
        wall_s: start.elapsed().as_secs_f64(),
        capped: capped.load(Ordering::Relaxed),
    }
}

// ------------------------------------------------------------- known findings

#[derive(serde::Deserialize, Clone, Debug)]
pub struct Finding {
    pub status: String,
    pub property: String,
    pub id: String,
    /// violation class must start with this
    pub class_prefix: String,
    /// plan predicates that must all hold (see `predicate_holds`)
    #[serde(default)]
    pub when: Vec<String>,
    pub text: String,
    #[serde(default)]
    pub commit: String,
}

pub fn load_findings() -> Vec<Finding> {
    let p = format!("{}/known_findings.json", verif_dir());
    match std::fs::read_to_string(&p) {
        Ok(s) => serde_json::from_str::<Value>(&s)
            .ok()
            .and_then(|v| v.get("findings").cloned())
            .and_then(|f| serde_json::from_value(f).ok())
            .unwrap_or_default(),
        Err(_) => Vec::new(),
    }
}

pub fn predicate_holds(name: &str, plan: &Plan, v: &Violation) -> bool {
    use crate::plan::*;
    match name {
        "has_set_delay_call" => plan.api.iter().any(|a| matches!(a.call, Api::SetDelay { .. })),
        "has_node_stop" => plan.nodes.iter().any(|n| n.tick.stop_us.is_some()),
        "three_or_more_peers" => plan.peers().len() >= 3,
        "has_spectator" => plan.nodes.iter().any(|n| matches!(n.kind, NodeKind::Spectator { .. })),
        "violating_node_is_spectator" => plan.nodes.get(v.node).is_some_and(|n| matches!(n.kind, NodeKind::Spectator { .. })),
        "has_injection" => !plan.injects.is_empty(),
        "survivors_received_different_amounts" => v.class.ends_with("+split"),
        // the survivors learn of the death at different instants although they hold the same amount of
        // the dead peer's input: their timeouts differ, or packets between two survivors are lost
        "survivors_detect_at_different_times" => {
            let alive = |i: usize| plan.nodes.get(i).is_some_and(|n| n.tick.stop_us.is_none() && matches!(n.kind, NodeKind::Peer { .. }));
            !v.class.ends_with("+split") && (plan.nodes.iter().any(|n| n.timeout_ms.is_some()) || plan.windows.iter().any(|w| alive(w.from) && alive(w.to)))
        }
        "never_drains_events" => plan.nodes.iter().any(|n| !n.drain),
        other => {
            eprintln!("unknown predicate {other} in known_findings.json");
            false
        }
    }
}

pub fn match_finding<'a>(fs: &'a [Finding], property: &str, plan: &Plan, v: &Violation) -> Option<&'a Finding> {
    fs.iter().find(|f| f.status == "open" && f.property == property && v.class.starts_with(&f.class_prefix) && f.when.iter().all(|w| predicate_holds(w, plan, v)))
}

// ------------------------------------------------------------- replay files

pub fn write_replay(property: &str, index: u64, seed: u64, plan: &Plan, v: &Violation, shrink_steps: &[String], trace_hash: u64) -> String {
    let dir = format!("{}/replays", out_dir());
    let _ = std::fs::create_dir_all(&dir);
    let path = format!("{dir}/{property}-{seed:016x}.json");
    let doc = json!({
        "property": property,
        "run_index": index,
        "seed": seed,
        "violation": v,
        "trace_hash": format!("{trace_hash:016x}"),
        "minimisation": shrink_steps,
        "plan": plan,
    });
    std::fs::write(&path, serde_json::to_string_pretty(&doc).unwrap()).expect("write replay file");
    path
}

pub fn replay_file(path: &str) -> i32 {
    crate::world::install_thread();
    let s = match std::fs::read_to_string(path) {
        Ok(s) => s,
        Err(e) => {
            eprintln!("cannot read {path}: {e}");
            return 2;
        }
    };
    let doc: Value = match serde_json::from_str(&s) {
        Ok(v) => v,
        Err(e) => {
            eprintln!("cannot parse {path}: {e}");
            return 2;
        }
    };
    let plan: Plan = match serde_json::from_value(doc["plan"].clone()) {
        Ok(p) => p,
        Err(e) => {
            eprintln!("cannot read plan in {path}: {e}");
            return 2;
        }
    };
    let want = doc["violation"]["class"].as_str().unwrap_or("").to_owned();
    match execute(&plan) {
        Err(e) => {
            eprintln!("plan could not be executed: {e}");
            2
        }
        Ok(out) => {
            println!("replayed {path}: simulated {} ms, trace {:016x}", out.end_us / 1000, out.trace_hash);
            if std::env::var("VERIF_TRACE").is_ok() {
                for (i, n) in out.nodes.iter().enumerate() {
                    println!("  node {i}: final frame {}, sealed {}, alive {}, conn {:?}", n.final_frame, n.sealed, n.alive, n.conn);
                    for (t, e) in &n.events {
                        if !matches!(e, crate::world::Ev::Synchronizing { .. } | crate::world::Ev::Wait { .. }) {
                            println!("    t={} ms {:?}", t / 1000, e);
                        }
                    }
                }
                println!("  counters {:?}", out.counters);
            }
            for v in &out.violations {
                println!("  violation class={} node={} frame={} t={}us: {}", v.class, v.node, v.frame, v.t_us, v.text);
            }
            if out.violations.iter().any(|v| v.class == want) {
                println!("REPRODUCED property={} class={want}", plan.property);
                1
            } else {
                println!("NOT REPRODUCED (expected class {want})");
                0
            }
        }
    }
}

// ------------------------------------------------------------- the check

pub fn check(spec: &PropSpec, tier: &str) -> i32 {
    let batch_seed: u64 = std::env::var("VERIF_SEED").ok().and_then(|s| s.parse().ok()).unwrap_or(spec.default_seed);
    let threads: usize = std::env::var("VERIF_THREADS").ok().and_then(|s| s.parse().ok()).unwrap_or(16);
    let runs = std::env::var("VERIF_RUNS").ok().and_then(|s| s.parse().ok()).unwrap_or_else(|| crate::props::runs(spec, tier));
    let cap = Duration::from_secs(std::env::var("VERIF_CAP_S").ok().and_then(|s| s.parse().ok()).unwrap_or(if tier == "thorough" { 1500 } else { 150 }));
    println!("check {} tier={tier} VERIF_SEED={batch_seed} runs={runs} threads={threads}", spec.id);
    let findings = load_findings();
    let res = run_batch(spec, tier, batch_seed, runs, threads, cap, &findings);
    let agg = &res.agg;
    let mut exit = 0;
    let mut harness_errors: Vec<String> = agg.errors.iter().take(5).cloned().collect();
    if res.canary_mismatches > 0 {
        harness_errors.push(format!("determinism canary: {} of {} re-executed runs hashed differently", res.canary_mismatches, res.canary_pairs));
    }
    for p in spec.required_probes {
        let v = agg.probes.get(*p).or_else(|| agg.faults.get(*p)).or_else(|| agg.events.get(*p)).copied().unwrap_or(0);
        // only meaningful when the batch ran to the end (the wall-clock cap cuts the later sub-batches)
        if v == 0 && runs >= crate::props::runs(spec, "quick") && !res.capped {
            harness_errors.push(format!("reach probe '{p}' stayed at zero: the workload or fault mix does not reach what this property depends on"));
        }
    }
    // violations: group by class, minimise the first of each class, replay in a fresh process
    let mut reported: BTreeSet<String> = BTreeSet::new();
    let mut known_seen: BTreeMap<String, u64> = agg.known_seen.clone();
    let mut violation_count = 0;
    let mut new_classes = 0;
    let max_new: usize = std::env::var("VERIF_MAX_CLASSES").ok().and_then(|s| s.parse().ok()).unwrap_or(4);
    for (index, seed, plan, v) in &agg.violations {
        if let Some(f) = match_finding(&findings, spec.id, plan, v) {
            *known_seen.entry(f.id.clone()).or_insert(0) += 1;
            continue;
        }
        violation_count += 1;
        if !reported.insert(v.class.clone()) || new_classes >= max_new {
            continue;
        }
        new_classes += 1;
        println!("violation in run {index} (seed {seed}): class={} node={} frame={} t={}us\n  {}", v.class, v.node, v.frame, v.t_us, v.text);
        let sh = shrink::shrink(plan, &v.class, 600, Duration::from_secs(45));
        let out = execute(&sh.plan).ok();
        let mv = out.as_ref().and_then(|o| o.violations.iter().find(|x| x.class == v.class).cloned()).unwrap_or_else(|| v.clone());
        // a minimised plan may have become an instance of a known finding
        if let Some(f) = match_finding(&findings, spec.id, &sh.plan, &mv) {
            *known_seen.entry(f.id.clone()).or_insert(0) += 1;
            violation_count -= 1;
            continue;
        }
        let path = write_replay(spec.id, *index, *seed, &sh.plan, &mv, &sh.steps, out.map(|o| o.trace_hash).unwrap_or(0));
        println!("  minimised with {} candidate runs: {}", sh.candidates, sh.steps.join(", "));
        // fresh-process confirmation
        let exe = std::env::current_exe().expect("own path");
        let st = std::process::Command::new(exe).arg("replay").arg(&path).output();
        match st {
            Ok(o) if o.status.code() == Some(1) => {
                println!("VIOLATION property={} replay={path}", spec.id);
                exit = 1;
            }
            Ok(o) => {
                harness_errors.push(format!("replay of {path} in a fresh process did not reproduce (exit {:?})", o.status.code()));
            }
            Err(e) => harness_errors.push(format!("could not start replay process: {e}")),
        }
    }
    for f in findings.iter().filter(|f| f.status == "open" && f.property == spec.id) {
        if let Some(n) = known_seen.get(&f.id) {
            println!("KNOWN-FINDING: property={} {} [{}; re-observed in {n} runs]", spec.id, f.text, f.id);
        } else {
            println!("KNOWN-FINDING: property={} {} [{}; not re-observed in this batch]", spec.id, f.text, f.id);
        }
    }
    write_evidence(spec, tier, batch_seed, runs, &res, violation_count, &known_seen);
    let mut fpr = agg.frames_per_run.clone();
    fpr.sort_unstable();
    let median = fpr.get(fpr.len() / 2).copied().unwrap_or(0);
    println!(
        "{}: {} runs in {:.1}s ({:.0} runs/h), {:.0} simulated s, {} frames first-simulated, {} rollbacks, {} distinct schedules ({} non-trivial), median frames/run {median}, violations {violation_count}",
        spec.id,
        agg.runs,
        res.wall_s,
        agg.runs as f64 / res.wall_s * 3600.0,
        agg.sim_us as f64 / 1e6,
        agg.frames,
        agg.probes.get("rollbacks").copied().unwrap_or(0),
        agg.sched_hashes.len(),
        agg.nontrivial_hashes.len(),
    );
    if res.capped {
        println!("note: wall-clock cap reached after {} of {runs} runs", agg.runs);
    }
    if exit == 0 && !harness_errors.is_empty() {
        for e in &harness_errors {
            println!("HARNESS-ERROR: {e}");
        }
        return 2;
    }
    exit
}

pub fn write_evidence(spec: &PropSpec, tier: &str, batch_seed: u64, runs: u64, res: &BatchResult, violations: u64, known: &BTreeMap<String, u64>) {
    let agg = &res.agg;
    let dir = format!("{}/evidence", out_dir());
    let _ = std::fs::create_dir_all(&dir);
    let seeds: Vec<String> = (0..runs.min(5)).map(|i| format!("{:016x}", run_seed(batch_seed, spec.id, i))).collect();
    let doc = json!({
        "property_id": spec.id,
        "tier": tier,
        "seed": batch_seed,
        "level": spec.level,
        "wall_s": res.wall_s,
        "violations": violations,
        "assumptions": spec.assumptions,
        "coverage": {
            "evaluations": agg.runs,
            "distinct_nontrivial": agg.nontrivial_hashes.len(),
            "rule": spec.rule,
            "samples": res.samples,
            "exhaustive": false,
            "runs_requested": runs,
            "wall_clock_cap_reached": res.capped,
            "runs_per_hour": (agg.runs as f64 / res.wall_s.max(1e-9) * 3600.0) as u64,
            "seed_derivation": "run i uses mix(mix(VERIF_SEED ^ fnv(property)) ^ i*0x9E3779B97F4A7C15); every choice inside a run is a stateless hash of that seed",
            "first_run_seeds": seeds,
            "simulated_seconds": agg.sim_us as f64 / 1e6,
            "simulated_frames_first": agg.frames,
            "distinct_executed_schedules": agg.sched_hashes.len(),
            "distinct_measure": "64-bit hash of the executed sequence of (event class, node or link, packet kind)",
            "scenarios": agg.scenarios,
            "faults_fired": agg.faults,
            "probes": agg.probes,
            "maxima": agg.max_of,
            "events_observed": agg.events,
            "known_findings_reobserved": known,
            "determinism_canary": {"pairs": res.canary_pairs, "mismatches": res.canary_mismatches},
            "real_components": ["P2PSession", "SpectatorSession", "SyncTestSession", "SessionBuilder", "SyncLayer", "InputQueue", "GameStateCell", "UdpProtocol", "TimeSync", "compression (XOR delta + bitfield-rle)", "bincode (de)serialisation of Message"],
            "stubbed_components": ["UdpNonBlockingSocket + OS UDP stack -> SimSocket/NetCore", "instant::Instant, SystemTime -> virtual clock (verif-hooks)", "rand::random -> seeded stream (verif-hooks)", "RandomState -> seeded BuildHasher (verif-hooks)", "user game -> harness game (hash chain + request automaton)", "user main loop -> simulator tick events"],
        }
    });
    let path = format!("{dir}/{}.json", spec.id);
    std::fs::write(&path, serde_json::to_string_pretty(&doc).unwrap()).expect("write evidence");
}

// ------------------------------------------------------------- determinism self-test

/// Trace hashes of runs 0..count of a property, computed on `threads` workers.
pub fn hashes(spec: &PropSpec, batch_seed: u64, count: u64, threads: usize) -> BTreeMap<u64, u64> {
    let next = AtomicU64::new(0);
    let out = Mutex::new(BTreeMap::new());
    std::thread::scope(|sc| {
        for _ in 0..threads.max(1) {
            sc.spawn(|| {
                crate::world::install_thread();
                loop {
                    let i = next.fetch_add(1, Ordering::Relaxed);
                    if i >= count {
                        break;
                    }
                    let seed = run_seed(batch_seed, spec.id, i);
                    let plan = scenarios::generate(spec.id, "quick", seed, i);
                    let h = match execute(&plan) {
                        Ok(o) => o.trace_hash ^ o.sched_hash.rotate_left(17) ^ (o.violations.len() as u64) << 56,
                        Err(_) => 0xE44,
                    };
                    out.lock().unwrap().insert(i, h);
                }
            });
        }
    });
    out.into_inner().unwrap()
}

/// Every property's first runs executed three times - here on 16 threads, in a fresh process
/// on 1 thread, in another fresh process on 5 threads - must produce identical event-log hashes.
pub fn selftest(total: u64) -> i32 {
    let specs = crate::props::SPECS;
    let per = (total / specs.len() as u64).max(8);
    let exe = std::env::current_exe().expect("own path");
    let mut mismatches = 0u64;
    let mut compared = 0u64;
    for spec in specs {
        // skip the enumerated payload chunks of C08 (pure sweeps) by starting where its live runs start
        let here = hashes(spec, spec.default_seed, per, 16);
        for threads in [1usize, 5] {
            let out = std::process::Command::new(&exe).args(["hashes", spec.id, &per.to_string(), &threads.to_string()]).output();
            let Ok(out) = out else {
                println!("HARNESS-ERROR: could not start child process");
                return 2;
            };
            let text = String::from_utf8_lossy(&out.stdout);
            let mut there = BTreeMap::new();
            for l in text.lines() {
                let mut it = l.split(' ');
                if let (Some(i), Some(h)) = (it.next().and_then(|x| x.parse::<u64>().ok()), it.next().and_then(|x| u64::from_str_radix(x, 16).ok())) {
                    there.insert(i, h);
                }
            }
            for (i, h) in &here {
                compared += 1;
                if there.get(i) != Some(h) {
                    mismatches += 1;
                    if mismatches <= 10 {
                        println!("MISMATCH property={} run={i}: {:016x} here (16 threads) vs {:?} in a fresh process ({threads} threads)", spec.id, h, there.get(i).map(|x| format!("{x:016x}")));
                    }
                }
            }
        }
        println!("{}: {} runs x 3 executions compared", spec.id, here.len());
    }
    println!("determinism self-test: {compared} comparisons, {mismatches} mismatches");
    if mismatches > 0 {
        2
    } else {
        0
    }
}
