//! Minimisation of a failing plan by delta debugging under "same violation class".

use crate::net::Fired;
use crate::plan::*;
use crate::check::execute as run_plan;
use std::time::{Duration, Instant};

pub struct Shrunk {
    pub plan: Plan,
    pub candidates: u32,
    pub steps: Vec<String>,
}

fn fails(plan: &Plan, class: &str) -> Option<u64> {
    match run_plan(plan) {
        Ok(out) => out.violations.iter().find(|v| v.class == class).map(|v| v.t_us),
        Err(_) => None,
    }
}

struct Budget {
    left: u32,
    deadline: Instant,
    used: u32,
}
impl Budget {
    fn ok(&mut self) -> bool {
        if self.left == 0 || Instant::now() > self.deadline {
            return false;
        }
        self.left -= 1;
        self.used += 1;
        true
    }
}

/// ddmin over one list-valued component of the plan.
fn ddmin<T: Clone>(plan: &mut Plan, class: &str, b: &mut Budget, get: impl Fn(&Plan) -> Vec<T>, set: impl Fn(&mut Plan, Vec<T>)) -> bool {
    let mut items = get(plan);
    if items.is_empty() {
        return false;
    }
    let mut changed = false;
    // try empty first
    {
        let mut cand = plan.clone();
        set(&mut cand, Vec::new());
        if b.ok() && fails(&cand, class).is_some() {
            *plan = cand;
            return true;
        }
    }
    let mut n = 2usize;
    while items.len() >= 2 {
        let chunk = items.len().div_ceil(n);
        let mut reduced = false;
        for i in 0..n {
            let lo = i * chunk;
            if lo >= items.len() {
                break;
            }
            let hi = (lo + chunk).min(items.len());
            let mut rest = items[..lo].to_vec();
            rest.extend_from_slice(&items[hi..]);
            let mut cand = plan.clone();
            set(&mut cand, rest.clone());
            if !b.ok() {
                return changed;
            }
            if fails(&cand, class).is_some() {
                items = rest;
                *plan = cand;
                n = (n - 1).max(2);
                reduced = true;
                changed = true;
                break;
            }
        }
        if !reduced {
            if n >= items.len() {
                break;
            }
            n = (n * 2).min(items.len());
        }
    }
    changed
}

fn try_edit(plan: &mut Plan, class: &str, b: &mut Budget, steps: &mut Vec<String>, name: &str, f: impl Fn(&mut Plan)) -> bool {
    let mut cand = plan.clone();
    f(&mut cand);
    if cand == *plan || !b.ok() {
        return false;
    }
    if fails(&cand, class).is_some() {
        *plan = cand;
        steps.push(name.to_owned());
        true
    } else {
        false
    }
}

/// Turns the random per-packet faults that actually fired into explicit entries and switches
/// the random rates off, so that the fault list can be minimised item by item.
pub fn freeze(plan: &Plan, fired: &[Fired]) -> Plan {
    let mut p = plan.clone();
    for f in fired.iter().filter(|f| f.random) {
        if !p.pkt_faults.iter().any(|x| x.from == f.from && x.to == f.to && x.n == f.n) {
            p.pkt_faults.push(PktFault { from: f.from, to: f.to, n: f.n, action: f.action.clone() });
        }
    }
    for l in p.links.iter_mut() {
        l.loss_ppm = 0;
        l.dup_ppm = 0;
    }
    p
}

pub fn shrink(original: &Plan, class: &str, max_candidates: u32, max_time: Duration) -> Shrunk {
    let mut b = Budget { left: max_candidates, deadline: Instant::now() + max_time, used: 0 };
    let mut steps = Vec::new();
    let mut plan = original.clone();

    // 1. freeze random faults into an explicit list
    if let Ok(out) = run_plan(&plan) {
        let frozen = freeze(&plan, &out.fired);
        if b.ok() && fails(&frozen, class).is_some() {
            plan = frozen;
            steps.push("freeze".into());
        }
    }
    // 2. truncate the horizon to just after the violation
    if let Some(t) = fails(&plan, class) {
        let cut = t + 1000;
        if cut < plan.horizon_us {
            try_edit(&mut plan, class, &mut b, &mut steps, "truncate-horizon", |p| p.horizon_us = cut);
        }
    }
    // 3. ddmin over the fault lists
    for round in 0..2 {
        let mut any = false;
        any |= ddmin(&mut plan, class, &mut b, |p| p.pkt_faults.clone(), |p, v| p.pkt_faults = v);
        any |= ddmin(&mut plan, class, &mut b, |p| p.windows.clone(), |p, v| p.windows = v);
        any |= ddmin(&mut plan, class, &mut b, |p| p.api.clone(), |p, v| p.api = v);
        any |= ddmin(&mut plan, class, &mut b, |p| p.injects.clone(), |p, v| p.injects = v);
        any |= ddmin(&mut plan, class, &mut b, |p| p.perturb.clone(), |p, v| p.perturb = v);
        // (in a time-sync plan the pauses are what creates the lead the oracle is told about)
        for i in 0..plan.nodes.len() {
            if plan.oracle.timesync.is_some() {
                break;
            }
            any |= ddmin(&mut plan, class, &mut b, |p| p.nodes[i].tick.pauses.clone(), |p, v| p.nodes[i].tick.pauses = v);
        }
        if !any || round == 1 {
            break;
        }
    }
    steps.push(format!("ddmin -> {} pkt faults, {} windows, {} api calls, {} injections", plan.pkt_faults.len(), plan.windows.len(), plan.api.len(), plan.injects.len()));
    // payload sweeps: narrow the chunk to the one offending byte string
    if let Mode::DecodeSweep { .. } = plan.mode {
        if let Ok(out) = run_plan(&plan) {
            if let Some(v) = out.violations.iter().find(|v| v.class == class) {
                let k = v.frame as u64;
                try_edit(&mut plan, class, &mut b, &mut steps, "single-payload", |p| p.mode = Mode::DecodeSweep { start: k, count: 1 });
            }
        }
    }
    // 4. drop trailing spectator nodes
    while !plan.nodes.is_empty() {
        let last = plan.nodes.len() - 1;
        if !matches!(plan.nodes[last].kind, NodeKind::Spectator { .. }) {
            break;
        }
        let ok = try_edit(&mut plan, class, &mut b, &mut steps, "drop-spectator", |p| {
            p.nodes.pop();
            p.links.retain(|l| l.from != last && l.to != last);
            p.windows.retain(|w| w.from != last && w.to != last);
            p.pkt_faults.retain(|f| f.from != last && f.to != last);
            p.api.retain(|a| a.node != last);
            p.injects.retain(|a| a.to != last);
        });
        if !ok {
            break;
        }
    }
    // 5. scalar simplifications
    try_edit(&mut plan, class, &mut b, &mut steps, "no-link-jitter", |p| p.links.iter_mut().for_each(|l| l.jitter_us = 0));
    try_edit(&mut plan, class, &mut b, &mut steps, "no-tick-jitter", |p| p.nodes.iter_mut().for_each(|n| n.tick.jitter_us = 0));
    if plan.oracle.timesync.is_none() {
        try_edit(&mut plan, class, &mut b, &mut steps, "zero-latency", |p| p.links.iter_mut().for_each(|l| l.base_us = 0));
        try_edit(&mut plan, class, &mut b, &mut steps, "latency-10ms", |p| p.links.iter_mut().for_each(|l| l.base_us = l.base_us.min(10_000)));
    }
    try_edit(&mut plan, class, &mut b, &mut steps, "no-prepoll", |p| p.nodes.iter_mut().for_each(|n| n.tick.prepoll_ppm = 0));
    // edits below would change what the scenario means when the oracle depends on start offsets
    let timing_sensitive = plan.oracle.timesync.is_some();
    if !timing_sensitive {
    try_edit(&mut plan, class, &mut b, &mut steps, "uniform-period", |p| {
        let per = 1_000_000 / p.cfg.fps as u64;
        p.nodes.iter_mut().for_each(|n| n.tick.period_us = per)
    });
    try_edit(&mut plan, class, &mut b, &mut steps, "same-start", |p| p.nodes.iter_mut().for_each(|n| n.tick.start_us = 0));
    }
    try_edit(&mut plan, class, &mut b, &mut steps, "hash-single-seed", |p| p.cfg.hash_per_map = false);
    try_edit(&mut plan, class, &mut b, &mut steps, "no-sparse", |p| p.cfg.sparse = false);
    try_edit(&mut plan, class, &mut b, &mut steps, "no-desync-detection", |p| p.cfg.desync_interval = 0);
    if !timing_sensitive {
        // (in a lockstep time-sync plan the delay is what makes the lead possible)
        try_edit(&mut plan, class, &mut b, &mut steps, "delay-0", |p| p.cfg.input_delay = 0);
    }
    try_edit(&mut plan, class, &mut b, &mut steps, "inputs-unique", |p| p.cfg.input_mode = InputMode::Unique);
    try_edit(&mut plan, class, &mut b, &mut steps, "repeat-last-predictor", |p| p.cfg.predict_default = false);
    try_edit(&mut plan, class, &mut b, &mut steps, "no-clock-bump", |p| p.cfg.clock_bump_us = 0);
    try_edit(&mut plan, class, &mut b, &mut steps, "plain-submissions", |p| p.cfg.shuffle_submissions = false);
    try_edit(&mut plan, class, &mut b, &mut steps, "state-in-cells", |p| p.cfg.own_snapshots = false);
    // shrink windows to the shortest that still fails (halving)
    for wi in 0..plan.windows.len() {
        for _ in 0..6 {
            let ok = try_edit(&mut plan, class, &mut b, &mut steps, "halve-window", |p| {
                let w = &mut p.windows[wi];
                let d = (w.end_us - w.start_us) / 2;
                w.end_us = w.start_us + d.max(1000);
            });
            if !ok {
                break;
            }
        }
    }
    // re-truncate
    if let Some(t) = fails(&plan, class) {
        let cut = t + 1000;
        if cut < plan.horizon_us {
            try_edit(&mut plan, class, &mut b, &mut steps, "truncate-horizon", |p| p.horizon_us = cut);
        }
    }
    Shrunk { plan, candidates: b.used, steps }
}
