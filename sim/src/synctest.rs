//! Degenerate simulation for SyncTestSession (C13, part of C02): one node, no network, no
//! clock. What is left of the technique is the seeded workload, the injected fault (a game step
//! whose result differs between simulations of the same frame), the oracles, replay and
//! shrinking.

use crate::game::*;
use crate::net::FaultCounters;
use crate::plan::*;
use crate::types::*;
use crate::world::{guarded, input_value, panic_class, short_loc, NodeObs, Probes, RunOut};
use ggrs::{GgrsError, SessionBuilder};

pub fn run<C: SimCfg>(plan: &Plan, check_distance: usize, frames: u32, expect_reject: bool) -> Result<RunOut, String> {
    let cfg = &plan.cfg;
    ggrs::verif::set_now_micros(0);
    ggrs::verif::set_hash_per_map(cfg.hash_per_map);
    ggrs::verif::set_hash_seed(cfg.hash_seed);
    let b = SessionBuilder::<C>::new()
        .with_num_players(cfg.num_players)
        .map_err(|e| e.to_string())?
        .with_max_prediction_window(cfg.max_prediction)
        .with_input_delay(cfg.input_delay)
        .with_sparse_saving_mode(cfg.sparse)
        .with_check_distance(check_distance);
    let empty = |viol: Vec<Violation>| RunOut {
        log: Vec::new(),
        violations: viol,
        probes: {
            let mut p = Probes::default();
            p.extra.insert("synctest_invalid_configs_tried", 1);
            p
        },
        counters: FaultCounters::default(),
        fired: Vec::new(),
        trace_hash: 0,
        sched_hash: crate::rng::mix(plan.seed),
        nodes: Vec::new(),
        end_us: 0,
    };
    let v0 = |class: &str, text: String| Violation { class: class.into(), text, t_us: 0, node: 0, frame: 0 };
    let mut sess = match guarded(|| b.start_synctest_session()) {
        Err(p) => return Ok(empty(vec![v0(&panic_class(&p), format!("start_synctest_session() panicked at {}: {}", short_loc(&p.1), p.0))])),
        Ok(Err(GgrsError::InvalidRequest { .. })) if expect_reject => return Ok(empty(Vec::new())),
        Ok(Err(e)) => return Ok(empty(vec![v0("c13.valid_rejected", format!("start_synctest_session() returned {e:?} for a documented-valid configuration (window {}, check distance {check_distance}, sparse {})", cfg.max_prediction, cfg.sparse))])),
        Ok(Ok(_)) if expect_reject => return Ok(empty(vec![v0("c13.invalid_accepted", format!("start_synctest_session() accepted window {}, check distance {check_distance}, sparse {}", cfg.max_prediction, cfg.sparse))])),
        Ok(Ok(s)) => s,
    };
    let mut game = Game::new();
    game.own_snapshots = cfg.own_snapshots;
    game.checksum_layout = cfg.checksum_layout;
    let perturb = plan.perturb.first().cloned();
    if let Some(p) = &perturb {
        game.perturb = Some((p.frame, p.mode.clone()));
    }
    let nondet_frame = perturb.as_ref().filter(|p| matches!(p.mode, PerturbMode::Nondet | PerturbMode::NondetOnce(_))).map(|p| p.frame);
    // the k-th simulation of the frame is the wrong one (0 = every one): it has to have happened before a report is due
    let once_k = perturb.as_ref().and_then(|p| if let PerturbMode::NondetOnce(k) = p.mode { Some(k) } else { None }).unwrap_or(0);
    let mut viol: Vec<Violation> = Vec::new();
    let mut probes = Probes::default();
    if cfg.own_snapshots {
        probes.extra.insert("runs_with_own_snapshots", 1);
    }
    let np = cfg.num_players;
    let d = cfg.input_delay as i32;
    // truth[p][f]: the value submitted at user frame f - delay, default before
    let mut submitted: Vec<Vec<u32>> = vec![Vec::new(); np];
    let mut detected = false;
    let mut t = 0u64;
    for tick in 0..frames {
        t = tick as u64 * 1000;
        let u = sess.current_frame();
        // documented ways of submitting: in any order, several times per player (the last one
        // counts), and again after a call that failed because an input was still missing
        let hh = |k: u64| crate::rng::h(plan.seed, crate::rng::dom("synctest.submit"), &[0x5713, tick as u64, k]);
        let mut order: Vec<usize> = (0..np).collect();
        if cfg.shuffle_submissions {
            order.rotate_left(hh(0) as usize % np);
            if hh(1) & 1 == 1 {
                order.reverse();
            }
            if hh(2) % 7 == 0 && nondet_frame.is_none() {
                // stale values for all but one player, then a call that must fail and change nothing
                for &p in &order[..np - 1] {
                    let _ = sess.add_local_input(p, C::enc(0xBAD0_0000 | p as u32));
                }
                *probes.extra.entry("synctest_calls_with_missing_input").or_insert(0) += 1;
                match guarded(|| sess.advance_frame()) {
                    Ok(Err(GgrsError::InvalidRequest { .. })) => {}
                    Ok(other) => {
                        viol.push(Violation { class: "c16.wrong_error".into(), text: format!("SyncTestSession::advance_frame with the input of player {} missing returned {:?}", order[np - 1], other.map(|r| r.len())), t_us: t, node: 0, frame: u });
                        break;
                    }
                    Err(p) => {
                        viol.push(Violation { class: panic_class(&p), text: format!("SyncTestSession::advance_frame() with an input missing panicked at {}: {}", short_loc(&p.1), p.0), t_us: t, node: 0, frame: game.g });
                        break;
                    }
                }
                if sess.current_frame() != u {
                    viol.push(Violation { class: "c16.misuse_changed_behaviour".into(), text: format!("a failed SyncTest advance_frame moved current_frame() from {u} to {}", sess.current_frame()), t_us: t, node: 0, frame: u });
                    break;
                }
            }
        }
        for &p in &order {
            let v = input_value(plan, p, u, 0);
            if submitted[p].len() as i32 == u {
                submitted[p].push(v);
            }
            if cfg.shuffle_submissions && hh(10 + p as u64) % 5 == 0 {
                let _ = sess.add_local_input(p, C::enc(0xDEAD_0000 | p as u32));
                *probes.extra.entry("throwaway_submissions").or_insert(0) += 1;
            }
            if let Err(e) = sess.add_local_input(p, C::enc(v)) {
                viol.push(Violation { class: "c16.local_input_rejected".into(), text: format!("SyncTestSession::add_local_input({p}) returned {e:?}"), t_us: t, node: 0, frame: u });
            }
        }
        let res = match guarded(|| sess.advance_frame()) {
            Err(p) => {
                let loc = short_loc(&p.1);
                viol.push(Violation { class: panic_class(&p), text: format!("SyncTestSession::advance_frame() panicked at {loc}: {}", p.0), t_us: t, node: 0, frame: game.g });
                break;
            }
            Ok(r) => r,
        };
        probes.ticks += 1;
        match res {
            Err(GgrsError::MismatchedChecksum { current_frame, mismatched_frames }) => {
                detected = true;
                *probes.extra.entry("synctest_mismatch_reports").or_insert(0) += 1;
                match nondet_frame {
                    None => viol.push(Violation {
                        class: "c13.false_alarm".into(),
                        text: format!("MismatchedChecksum{{current_frame {current_frame}, frames {mismatched_frames:?}}} reported for a deterministic game"),
                        t_us: t,
                        node: 0,
                        frame: current_frame,
                    }),
                    Some(f) => {
                        let sims = game.sims.get(f as usize).copied().unwrap_or(0);
                        let first = mismatched_frames.iter().copied().min().unwrap_or(-1);
                        if sims < 2.max(once_k) {
                            viol.push(Violation { class: "c13.early".into(), text: format!("mismatch reported although frame {f} was simulated only {sims} time(s)"), t_us: t, node: 0, frame: current_frame });
                        }
                        if first != f + 1 {
                            viol.push(Violation {
                                class: "c13.wrong_frame".into(),
                                text: format!("nondeterministic step at frame {f}: the first affected frame is {} but the report names {mismatched_frames:?}", f + 1),
                                t_us: t,
                                node: 0,
                                frame: current_frame,
                            });
                        }
                        if check_distance >= 2 && current_frame > f + check_distance as i32 + 2 + once_k.saturating_sub(1) as i32 {
                            viol.push(Violation {
                                class: "c13.late".into(),
                                text: format!("nondeterministic step at frame {f}, check distance {check_distance}: reported only at current_frame {current_frame}"),
                                t_us: t,
                                node: 0,
                                frame: current_frame,
                            });
                        }
                    }
                }
                break;
            }
            Err(e) => {
                viol.push(Violation { class: "c02.unexpected_error".into(), text: format!("SyncTestSession::advance_frame returned {e:?}"), t_us: t, node: 0, frame: game.g });
                break;
            }
            Ok(reqs) => {
                let ctx = ExecCtx {
                    kind: SessKind::Rollback,
                    num_players: np,
                    max_prediction: cfg.max_prediction,
                    max_advances: 1,
                    expect_first_save: check_distance > 0,
                    t_us: t,
                    node: 0,
                };
                let advs = game.exec::<C>(reqs, &ctx, &mut viol);
                let cf = sess.current_frame();
                if game.g != cf {
                    viol.push(Violation { class: "c02.frame_mismatch".into(), text: format!("after the last request the game is at frame {} but current_frame() is {cf}", game.g), t_us: t, node: 0, frame: game.g });
                }
                if game.g != u + 1 {
                    viol.push(Violation { class: "c02.frame_delta".into(), text: format!("SyncTest call moved the game from {u} to {}", game.g), t_us: t, node: 0, frame: game.g });
                }
                for a in advs {
                    for (p, (v, st)) in a.inputs.iter().enumerate() {
                        let exp = if a.frame < d { 0 } else { submitted[p].get((a.frame - d) as usize).copied().unwrap_or(u32::MAX) };
                        if *st != St::Confirmed {
                            viol.push(Violation { class: "c13.status".into(), text: format!("frame {} player {p}: status {st:?} in a SyncTest session", a.frame), t_us: t, node: 0, frame: a.frame });
                        }
                        if *v != exp {
                            viol.push(Violation {
                                class: "c13.wrong_input".into(),
                                text: format!("frame {} player {p}: got {v:#x}, the input submitted {d} frames earlier is {exp:#x}", a.frame),
                                t_us: t,
                                node: 0,
                                frame: a.frame,
                            });
                        }
                    }
                }
            }
        }
        if !viol.is_empty() {
            break;
        }
        // a nondeterministic step must have been reported by now
        if let Some(f) = nondet_frame {
            let cf = sess.current_frame();
            if check_distance >= 2 && cf > f + check_distance as i32 + 3 + once_k.saturating_sub(1) as i32 {
                viol.push(Violation {
                    class: "c13.missed".into(),
                    text: format!("nondeterministic step at frame {f}, check distance {check_distance}: nothing reported up to current_frame {cf}"),
                    t_us: t,
                    node: 0,
                    frame: cf,
                });
                break;
            }
        }
    }
    if detected {
        *probes.extra.entry("synctest_runs_with_detection").or_insert(0) += 1;
    }
    probes.frames_first = game.stats.first_sims;
    probes.resims = game.stats.resims;
    probes.rollbacks = game.stats.rollbacks;
    probes.max_rollback_depth = game.stats.max_depth;
    probes.saves = game.stats.saves;
    probes.max_frame = game.g;
    probes.ring_wraps_input = game.g.max(0) as u64 / 128;
    let trace = game.trace.0;
    Ok(RunOut {
        log: Vec::new(),
        violations: viol,
        probes,
        counters: FaultCounters::default(),
        fired: Vec::new(),
        trace_hash: trace,
        sched_hash: crate::rng::mix(trace ^ plan.seed),
        nodes: vec![NodeObs { hist: game.hist, used: game.used, sealed: 0, final_frame: game.g, events: Vec::new(), req_trace: trace, alive: true, is_peer: false, conn: Vec::new() }],
        end_us: t,
    })
}
