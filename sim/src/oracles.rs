//! Oracles that are not part of the per-step world loop.

use crate::plan::Api;
use crate::types::*;
use ggrs::{GgrsError, P2PSession};

/// Executes one misuse call (C16) and checks that the documented error comes back.
pub fn misuse_call<C: SimCfg>(s: &mut P2PSession<C>, call: &Api, viol: &mut Vec<Violation>, t_us: u64, node: usize) {
    let frame = s.current_frame();
    let mut bad = |class: &str, text: String| viol.push(Violation { class: class.to_owned(), text, t_us, node, frame });
    match call {
        Api::AddInputWrongHandle { handle } => match s.add_local_input(*handle, C::enc(0xBAD)) {
            Err(GgrsError::InvalidRequest { .. }) => {}
            other => bad("c16.misuse_not_rejected", format!("add_local_input({handle}) for a non-local handle returned {other:?}")),
        },
        Api::NetStats { handle } => {
            let local = s.local_player_handles().contains(handle);
            let known = local || s.remote_player_handles().contains(handle) || s.spectator_handles().contains(handle);
            match s.network_stats(*handle) {
                Err(GgrsError::InvalidRequest { .. }) if !known || local => {}
                Ok(_) | Err(GgrsError::NotSynchronized) | Err(GgrsError::NotEnoughData) if known && !local => {}
                other => bad("c16.misuse_not_rejected", format!("network_stats({handle}) returned {other:?} (local={local}, known={known})")),
            }
        }
        Api::DisconnectMisuse { handle } => match s.disconnect_player(*handle) {
            Err(GgrsError::InvalidRequest { .. }) => {}
            other => bad("c16.misuse_not_rejected", format!("disconnect_player({handle}) for a local or unknown handle returned {other:?}")),
        },
        Api::SetDelayMisuse { handle, delay } => match s.set_input_delay(*handle, *delay) {
            Err(GgrsError::InvalidRequest { .. }) => {}
            other => bad("c16.misuse_not_rejected", format!("set_input_delay({handle}, {delay}) for a non-local handle returned {other:?}")),
        },
        _ => {}
    }
}
