//! The simulated network and the only transport the sessions see.
//!
//! A packet is serialised with bincode at `send_to`, carried as bytes, and deserialised when
//! the destination session polls (undeserialisable bytes are dropped, as the real UDP socket
//! does). Every per-packet decision is a stateless hash of (seed, link, per-link packet
//! index), so the order in which a session iterates its endpoints cannot leak into the model.

use crate::mirror::*;
use crate::plan::*;
use crate::rng::{dom, h, Roll};
use crate::types::Addr;
use ggrs::{Message, NonBlockingSocket};
use std::cell::RefCell;
use std::collections::{BTreeMap, VecDeque};
use std::rc::Rc;

#[derive(Clone, Debug)]
pub struct Scheduled {
    pub at_us: u64,
    pub from: usize,
    pub to: usize,
    pub seq: u64,
    pub bytes: Vec<u8>,
    pub kind: u8,
}

#[derive(Clone, Debug, Default)]
pub struct FaultCounters {
    pub sent: u64,
    pub delivered: u64,
    pub dropped_random: u64,
    pub dropped_window: u64,
    pub dropped_explicit: u64,
    pub delayed_window: u64,
    pub delayed_explicit: u64,
    pub duplicated_random: u64,
    pub duplicated_explicit: u64,
    pub reordered: u64,
    pub undecodable: u64,
    pub injected: u64,
    pub to_dead: u64,
    pub sent_by_kind: [u64; 9],
    pub dropped_by_kind: [u64; 9],
}

/// A fault that actually fired (for freezing a run into an explicit plan).
#[derive(Clone, Debug)]
pub struct Fired {
    pub from: usize,
    pub to: usize,
    pub n: u64,
    pub action: PktAction,
    pub random: bool,
}

pub struct NetCore {
    pub now_us: u64,
    pub seed: u64,
    pub n_nodes: usize,
    pub inbox: Vec<VecDeque<(Addr, Vec<u8>)>>,
    /// packets in flight, ordered by (delivery instant, link id, per-link sequence): a total order
    /// that does not depend on the order in which sessions happened to send
    pub in_flight: BTreeMap<(u64, u64, u64), Scheduled>,
    pub sched: Roll,
    pub trace: Roll,
    /// newest input frame carried by any Input packet delivered to a node
    pub newest_input_to: Vec<i32>,
    pub link_count: BTreeMap<(usize, usize), u64>,
    pub links: BTreeMap<(usize, usize), LinkSpec>,
    pub windows: Vec<Window>,
    pub pkt_faults: BTreeMap<(usize, usize, u64), PktAction>,
    pub random_until: u64,
    pub exempt_kinds: u16,
    pub counters: FaultCounters,
    pub fired: Vec<Fired>,
    pub dead: Vec<bool>,
    /// newest magic seen on a directed link
    pub last_magic: BTreeMap<(usize, usize), u16>,
    /// newest real Input packet seen on a directed link
    pub last_input: BTreeMap<(usize, usize), MMsg>,
    /// what each node received in its polls since the world last looked: (from, message, injected)
    pub recv_scratch: Vec<Vec<(Addr, Option<MMsg>, bool)>>,
    /// highest per-link index delivered so far (reorder detection)
    pub max_delivered: BTreeMap<(usize, usize), u64>,
    /// nonces of SyncRequests sent per link, in order
    pub sync_requests: BTreeMap<(usize, usize), Vec<u32>>,
    /// detailed event log (only with VERIF_LOG set; never influences a run)
    pub log: Option<Vec<String>>,
}

const D_JIT: u64 = dom("pkt.jitter");
const D_LOSS: u64 = dom("pkt.loss");
const D_DUP: u64 = dom("pkt.dup");
const D_DUPD: u64 = dom("pkt.dupdelay");

impl NetCore {
    pub fn new(plan: &Plan) -> Self {
        // sessions built outside a world (builder sequences) still need an inbox
        let n = plan.nodes.len().max(4);
        NetCore {
            now_us: 0,
            seed: plan.seed,
            n_nodes: n,
            inbox: vec![VecDeque::new(); n],
            in_flight: BTreeMap::new(),
            sched: Roll::default(),
            trace: Roll::default(),
            newest_input_to: vec![-1; n],
            link_count: BTreeMap::new(),
            links: plan.links.iter().map(|l| ((l.from, l.to), l.clone())).collect(),
            windows: plan.windows.clone(),
            pkt_faults: plan.pkt_faults.iter().map(|f| ((f.from, f.to, f.n), f.action.clone())).collect(),
            random_until: plan.random_faults_until_us.unwrap_or(u64::MAX),
            exempt_kinds: plan.exempt_kinds,
            counters: FaultCounters::default(),
            fired: Vec::new(),
            dead: vec![false; n],
            last_magic: BTreeMap::new(),
            last_input: BTreeMap::new(),
            recv_scratch: vec![Vec::new(); n],
            max_delivered: BTreeMap::new(),
            sync_requests: BTreeMap::new(),
            log: std::env::var("VERIF_LOG").ok().map(|_| Vec::new()),
        }
    }

    fn send(&mut self, from: usize, to: usize, bytes: Vec<u8>) {
        if to >= self.n_nodes {
            return;
        }
        let mm = MMsg::from_bytes(&bytes);
        let kind = mm.as_ref().map(|m| m.kind()).unwrap_or(K_UNKNOWN);
        let n = {
            let c = self.link_count.entry((from, to)).or_insert(0);
            let n = *c;
            *c += 1;
            n
        };
        self.counters.sent += 1;
        self.counters.sent_by_kind[kind as usize] += 1;
        if let Some(l) = &mut self.log {
            let detail = match &mm {
                Some(MMsg { body: MBody::Input(i), .. }) => format!("start {} ack {} bytes {}", i.start_frame, i.ack_frame, i.bytes.len()),
                Some(MMsg { body: MBody::InputAck { ack_frame }, .. }) => format!("ack {ack_frame}"),
                Some(MMsg { body: MBody::ChecksumReport { frame, .. }, .. }) => format!("frame {frame}"),
                _ => String::new(),
            };
            l.push(format!("t={} send {from}->{to} #{n} {} {detail}", self.now_us, KIND_NAMES[kind as usize]));
        }
        if let Some(m) = &mm {
            self.last_magic.insert((from, to), m.magic);
            match &m.body {
                MBody::Input(_) => {
                    self.last_input.insert((from, to), m.clone());
                }
                MBody::SyncRequest { random_request } => {
                    self.sync_requests.entry((from, to)).or_default().push(*random_request);
                }
                _ => {}
            }
        }
        if self.dead[to] {
            self.counters.to_dead += 1;
            return;
        }
        let Some(spec) = self.links.get(&(from, to)).cloned() else {
            return;
        };
        let k = [from as u64, to as u64, n];
        let mut delay = spec.base_us + if spec.jitter_us > 0 { h(self.seed, D_JIT, &k) % (spec.jitter_us + 1) } else { 0 };
        let mut dup: Option<u64> = None;
        let mut dropped = false;

        match self.pkt_faults.get(&(from, to, n)) {
            Some(PktAction::Drop) => {
                dropped = true;
                self.counters.dropped_explicit += 1;
                self.fired.push(Fired { from, to, n, action: PktAction::Drop, random: false });
            }
            Some(PktAction::Dup(extra)) => {
                dup = Some(*extra);
                self.counters.duplicated_explicit += 1;
                self.fired.push(Fired { from, to, n, action: PktAction::Dup(*extra), random: false });
            }
            Some(PktAction::Delay(extra)) => {
                delay += *extra;
                self.counters.delayed_explicit += 1;
                self.fired.push(Fired { from, to, n, action: PktAction::Delay(*extra), random: false });
            }
            None => {}
        }
        let exempt = (self.exempt_kinds >> kind) & 1 == 1;
        if !dropped && !exempt {
            for w in &self.windows {
                if w.from == from && w.to == to && self.now_us >= w.start_us && self.now_us < w.end_us && (w.kinds >> kind) & 1 == 1 {
                    match w.action {
                        WinAction::Drop => {
                            dropped = true;
                            self.counters.dropped_window += 1;
                        }
                        WinAction::Delay(extra) => {
                            delay += extra;
                            self.counters.delayed_window += 1;
                        }
                    }
                    break;
                }
            }
        }
        if !dropped && !exempt && self.now_us < self.random_until {
            if spec.loss_ppm > 0 && h(self.seed, D_LOSS, &k) % 1_000_000 < spec.loss_ppm as u64 {
                dropped = true;
                self.counters.dropped_random += 1;
                self.fired.push(Fired { from, to, n, action: PktAction::Drop, random: true });
            } else if dup.is_none() && spec.dup_ppm > 0 && h(self.seed, D_DUP, &k) % 1_000_000 < spec.dup_ppm as u64 {
                let extra = 1 + h(self.seed, D_DUPD, &k) % (spec.base_us + spec.jitter_us + 1000);
                dup = Some(extra);
                self.counters.duplicated_random += 1;
                self.fired.push(Fired { from, to, n, action: PktAction::Dup(extra), random: true });
            }
        }
        if dropped {
            self.counters.dropped_by_kind[kind as usize] += 1;
            return;
        }
        let link = (from * 64 + to) as u64;
        if let Some(extra) = dup {
            let at = self.now_us + delay + extra;
            self.in_flight.insert((at, link, n * 4 + 1), Scheduled { at_us: at, from, to, seq: n * 4 + 1, bytes: bytes.clone(), kind });
        }
        let at = self.now_us + delay;
        self.in_flight.insert((at, link, n * 4), Scheduled { at_us: at, from, to, seq: n * 4, bytes, kind });
    }

    pub fn next_delivery(&self) -> Option<u64> {
        self.in_flight.keys().next().map(|k| k.0)
    }

    /// Delivers the earliest packet in flight.
    pub fn deliver_next(&mut self) {
        if let Some((_, s)) = self.in_flight.pop_first() {
            self.deliver(s);
        }
    }

    /// Delivers every packet for `to` that is due at or before `t` (used while a node blocks in
    /// the lockstep wait loop: what is already in flight keeps arriving).
    pub fn deliver_due_to(&mut self, to: usize, t: u64) {
        let keys: Vec<(u64, u64, u64)> = self.in_flight.range(..(t + 1, 0, 0)).filter(|(_, s)| s.to == to).map(|(k, _)| *k).collect();
        for k in keys {
            if let Some(s) = self.in_flight.remove(&k) {
                self.deliver(s);
            }
        }
    }

    pub fn deliver(&mut self, s: Scheduled) {
        if self.dead[s.to] {
            return;
        }
        if let Some(l) = &mut self.log {
            l.push(format!("t={} deliver {}->{} #{} {}", s.at_us, s.from, s.to, s.seq / 4, KIND_NAMES[s.kind as usize]));
        }
        self.sched.add_all(&[0, (s.from * 64 + s.to) as u64, s.kind as u64]);
        self.trace.add_all(&[s.at_us, (s.from * 64 + s.to) as u64, s.seq, s.kind as u64]);
        if s.kind == K_INPUT {
            if let Some(MMsg { body: MBody::Input(inp), .. }) = MMsg::from_bytes(&s.bytes) {
                if inp.start_frame >= 0 {
                    if let Ok(frames) = ggrs::verif::decode(&[], &inp.bytes) {
                        let newest = inp.start_frame + frames.len() as i32 - 1;
                        self.newest_input_to[s.to] = self.newest_input_to[s.to].max(newest);
                    }
                }
            }
        }
        self.counters.delivered += 1;
        let n = s.seq / 4;
        let m = self.max_delivered.entry((s.from, s.to)).or_insert(0);
        if n < *m {
            self.counters.reordered += 1;
        } else {
            *m = n;
        }
        self.inbox[s.to].push_back((s.from as Addr, s.bytes));
    }

    /// Puts a forged datagram straight into a node's inbox.
    pub fn inject(&mut self, to: usize, from_addr: Addr, bytes: Vec<u8>) {
        self.counters.injected += 1;
        // marker: injected datagrams are tagged by a from_addr offset in the scratch log only
        self.inbox[to].push_back((from_addr | 0x8000, bytes));
    }
}

pub struct SimSocket {
    pub me: usize,
    pub core: Rc<RefCell<NetCore>>,
}

impl NonBlockingSocket<Addr> for SimSocket {
    fn send_to(&mut self, msg: &Message, addr: &Addr) {
        let bytes = msg_to_bytes(msg);
        self.core.borrow_mut().send(self.me, *addr as usize, bytes);
    }

    fn receive_all_messages(&mut self) -> Vec<(Addr, Message)> {
        let mut core = self.core.borrow_mut();
        let mut out = Vec::new();
        while let Some((from, bytes)) = core.inbox[self.me].pop_front() {
            let injected = from & 0x8000 != 0;
            let from = from & 0x7fff;
            let mm = MMsg::from_bytes(&bytes);
            match bytes_to_msg(&bytes) {
                Some(m) => {
                    core.recv_scratch[self.me].push((from, mm, injected));
                    out.push((from, m));
                }
                None => {
                    core.counters.undecodable += 1;
                    core.recv_scratch[self.me].push((from, None, injected));
                }
            }
        }
        out
    }
}
