//! Scenario generators: seed -> Plan. Every choice is a stateless hash of the seed.

use crate::mirror::*;
use crate::plan::*;
use crate::rng::{mix, Ch};

pub struct S1Opts {
    pub min_peers: usize,
    pub max_peers: usize,
    pub allow_spectators: bool,
    pub allow_lockstep: bool,
    pub faults: bool,
    pub desync: bool,
    pub frames_lo: u64,
    pub frames_hi: u64,
    pub long_run_pct: u64,
}

impl Default for S1Opts {
    fn default() -> Self {
        S1Opts { min_peers: 2, max_peers: 4, allow_spectators: true, allow_lockstep: false, faults: true, desync: false, frames_lo: 50, frames_hi: 900, long_run_pct: 10 }
    }
}

pub fn ms(x: u64) -> u64 {
    x * 1000
}

/// C01's space: 2-4 peers, 1-2 local players each, delays, windows >= 1, sparse on/off, both
/// predictors, all input modes, tick jitter / pauses / rate ratios, per-packet loss <= 25 %,
/// duplication <= 10 %, delay/reorder, bursts shorter than the disconnect timeout.
pub fn s1(property: &str, scenario: &str, seed: u64, o: &S1Opts) -> Plan {
    let c = Ch::new(seed, "s1");
    let n_peers = c.range(&[1], o.min_peers as u64, o.max_peers as u64) as usize;
    let n_peers = if c.chance(&[2], 450_000) { o.min_peers.max(2).min(o.max_peers) } else { n_peers };
    let mut locals: Vec<Vec<usize>> = Vec::new();
    let mut np = 0;
    for p in 0..n_peers {
        let k = if c.chance(&[3, p as u64], 300_000) { 2 } else { 1 };
        locals.push((np..np + k).collect());
        np += k;
    }
    // interleave handles in some runs so that a peer's players are not contiguous
    if c.chance(&[4], 300_000) && np > 2 {
        let rot = c.range(&[5], 1, np as u64 - 1) as usize;
        for l in locals.iter_mut() {
            for h in l.iter_mut() {
                *h = (*h * rot.max(1) + rot) % np;
            }
        }
        // keep it a permutation: fall back to identity if collisions
        let mut seen = vec![false; np];
        let mut ok = true;
        for l in &locals {
            for &h in l {
                if seen[h] {
                    ok = false;
                }
                seen[h] = true;
            }
        }
        if !ok {
            let mut k = 0;
            for l in locals.iter_mut() {
                for h in l.iter_mut() {
                    *h = k;
                    k += 1;
                }
            }
        }
    }
    let mut mp = *c.pick(&[6], &[1usize, 1, 2, 2, 3, 4, 6, 8, 8, 8, 10, 12]);
    if o.allow_lockstep && c.chance(&[7], 200_000) {
        mp = 0;
    }
    let delay = *c.pick(&[8], &[0usize, 0, 0, 1, 2, 2, 3, 4, 6]);
    let fps = *c.pick(&[9], &[30usize, 60, 60, 60, 120]);
    let period = 1_000_000 / fps as u64;
    let input_mode = match c.range(&[10], 0, 9) {
        0..=2 => InputMode::Unique,
        3..=5 => InputMode::Held(c.range(&[11], 2, 30) as u32),
        6 => InputMode::MostlyDefault(c.range(&[12], 3, 12) as u32),
        7 => InputMode::Constant,
        _ => InputMode::PerAttempt,
    };
    let frames = if c.chance(&[13], o.long_run_pct * 10_000) { c.range(&[14], 1500, 5000) } else { c.range(&[15], o.frames_lo, o.frames_hi) };
    let mut horizon = frames * period + ms(400);

    // spectators
    let mut nodes: Vec<NodeSpec> = Vec::new();
    for p in 0..n_peers {
        nodes.push(NodeSpec { kind: NodeKind::Peer { locals: locals[p].clone() }, tick: TickSpec::default(), wall_offset_ms: 0, drain: true });
    }
    let n_spec = if o.allow_spectators {
        match c.range(&[16], 0, 9) {
            0..=5 => 0,
            6..=8 => 1,
            _ => 2,
        }
    } else {
        0
    };
    for s in 0..n_spec {
        let host = c.range(&[17, s as u64], 0, n_peers as u64 - 1) as usize;
        nodes.push(NodeSpec {
            kind: NodeKind::Spectator {
                host,
                max_frames_behind: *c.pick(&[18, s as u64], &[10usize, 10, 1, 5, 30, 59]),
                catchup_speed: *c.pick(&[19, s as u64], &[1usize, 1, 2, 4, 16, 70]),
            },
            tick: TickSpec::default(),
            wall_offset_ms: 0,
            drain: true,
        });
    }
    let n = nodes.len();

    // disruption budget: everything that silences a link, summed, must stay short of the
    // disconnect timeout and of ~90 frame-times (the 128-input cap towards spectators)
    let budget_total = ms(1400).min(90 * period);
    let mut budget = if o.faults { budget_total } else { 0 };
    let mut take = |want: u64| -> u64 {
        let got = want.min(budget);
        budget -= got;
        got
    };

    // ticks
    for i in 0..n {
        let k = i as u64;
        let ratio = *c.pick(&[20, k], &[1000u64, 1000, 1000, 1000, 970, 1030, 500, 2000, 1500]);
        let jitter = *c.pick(&[21, k], &[0u64, 0, period / 8, period / 2, period]);
        let mut pauses = Vec::new();
        if o.faults {
            let np_ = c.range(&[22, k], 0, 3);
            let np_ = if c.chance(&[23, k], 500_000) { 0 } else { np_ };
            for j in 0..np_ {
                let d = take(ms(c.range(&[24, k, j], 30, 700)));
                if d > 0 {
                    let at = c.range(&[25, k, j], ms(200), horizon.max(ms(300)));
                    pauses.push((at, at + d));
                }
            }
        }
        nodes[i].tick = TickSpec {
            start_us: c.range(&[26, k], 0, ms(60)),
            period_us: (period * ratio / 1000).max(1000),
            jitter_us: jitter,
            pauses,
            stop_us: None,
            prepoll_ppm: *c.pick(&[27, k], &[0u32, 0, 500_000, 1_000_000]),
            poll_period_us: 0,
            use_wait: mp == 0 && c.chance(&[28, k], 300_000),
            poll_only: false,
        };
        nodes[i].wall_offset_ms = c.range(&[29, k], 1_000_000_000, 2_000_000_000_000);
        nodes[i].drain = true;
    }

    // links
    let mut links = Vec::new();
    let lossy = o.faults && c.chance(&[30], 700_000);
    let mut max_lat = 0;
    for a in 0..n {
        for b in 0..n {
            if a == b {
                continue;
            }
            let connected = match (&nodes[a].kind, &nodes[b].kind) {
                (NodeKind::Peer { .. }, NodeKind::Peer { .. }) => true,
                (NodeKind::Peer { .. }, NodeKind::Spectator { host, .. }) => *host == a,
                (NodeKind::Spectator { host, .. }, NodeKind::Peer { .. }) => *host == b,
                _ => false,
            };
            if !connected {
                continue;
            }
            let k = [31, a as u64, b as u64];
            let base = ms(*c.pick(&k, &[0u64, 1, 5, 10, 20, 20, 40, 80, 150]));
            let jit = base * c.range(&[32, a as u64, b as u64], 0, 100) / 100;
            let jit = if c.chance(&[33, a as u64, b as u64], 400_000) { 0 } else { jit };
            max_lat = max_lat.max(base + jit);
            links.push(LinkSpec {
                from: a,
                to: b,
                base_us: base,
                jitter_us: jit,
                loss_ppm: if lossy { *c.pick(&[34, a as u64, b as u64], &[0u32, 10_000, 50_000, 100_000, 250_000]) } else { 0 },
                dup_ppm: if lossy { *c.pick(&[35, a as u64, b as u64], &[0u32, 0, 20_000, 100_000]) } else { 0 },
            });
        }
    }

    // burst outages
    let mut windows = Vec::new();
    if o.faults {
        let nw = if c.chance(&[36], 500_000) { 0 } else { c.range(&[37], 1, 3) };
        for j in 0..nw {
            let l = &links[c.range(&[38, j], 0, links.len() as u64 - 1) as usize];
            let d = take(ms(c.range(&[39, j], 20, 900)));
            if d == 0 {
                continue;
            }
            let at = c.range(&[40, j], ms(100), horizon.max(ms(200)));
            let kinds = match c.range(&[41, j], 0, 5) {
                0 => 1u16 << K_INPUT_ACK,
                1 => 1u16 << K_INPUT,
                2 => (1u16 << K_QREPORT) | (1u16 << K_QREPLY) | (1u16 << K_KEEPALIVE),
                _ => ALL_KINDS,
            };
            let action = if c.chance(&[42, j], 250_000) { WinAction::Delay(ms(c.range(&[43, j], 20, 300)).min(d)) } else { WinAction::Drop };
            windows.push(Window { from: l.from, to: l.to, start_us: at, end_us: at + d, kinds, action: action.clone() });
            if c.chance(&[44, j], 400_000) {
                windows.push(Window { from: l.to, to: l.from, start_us: at, end_us: at + d, kinds, action });
            }
        }
    }
    let disruption_ms = (budget_total - budget) / 1000;
    let timeout_ms = 2000u64.max(disruption_ms * 2 + 2 * max_lat / 1000 + 1200);
    horizon += ms(disruption_ms);

    let desync_interval = if o.desync { c.range(&[45], 1, 12) as u32 } else { 0 };

    Plan {
        property: property.to_owned(),
        scenario: scenario.to_owned(),
        seed,
        cfg: RunCfg {
            num_players: np,
            max_prediction: mp,
            input_delay: delay,
            sparse: c.chance(&[46], 500_000),
            desync_interval,
            fps,
            timeout_ms,
            notify_ms: (timeout_ms / 4).max(100),
            predict_default: c.chance(&[47], 250_000),
            input_mode,
            hash_seed: mix(seed ^ 0x4a5),
            hash_per_map: c.chance(&[48], 300_000),
            rng_seed: mix(seed ^ 0x77),
            clock_bump_us: 0,
        },
        nodes,
        links,
        windows,
        pkt_faults: Vec::new(),
        api: Vec::new(),
        injects: Vec::new(),
        perturb: Vec::new(),
        horizon_us: horizon,
        random_faults_until_us: None,
        oracle: OracleCfg::default(),
    }
}

/// Scenario dispatch: which plan does run `index` of a check execute?
pub fn generate(property: &str, tier: &str, seed: u64, index: u64) -> Plan {
    let _ = tier;
    match property {
        "C01" => {
            // sub-batches: fault-free and fault-injecting configurations are kept separate
            match index % 8 {
                0 => s1(property, "s1-faultfree", seed, &S1Opts { faults: false, ..Default::default() }),
                1 => s1(property, "s1-3to4peers", seed, &S1Opts { min_peers: 3, ..Default::default() }),
                _ => s1(property, "s1", seed, &S1Opts::default()),
            }
        }
        _ => s1(property, "s1", seed, &S1Opts::default()),
    }
}
