//! Scenario generators: seed -> Plan. Every choice is a stateless hash of the seed.

use crate::mirror::*;
use crate::plan::*;
use crate::rng::{mix, Ch};

pub struct S1Opts {
    pub min_peers: usize,
    pub max_peers: usize,
    pub allow_spectators: bool,
    pub allow_lockstep: bool,
    pub faults: bool,
    pub desync: bool,
    pub frames_lo: u64,
    pub frames_hi: u64,
    pub long_run_pct: u64,
    pub mp_choices: &'static [usize],
    pub force_spectators: bool,
    /// favour held inputs and bursts: long prediction streaks
    pub bias_held: bool,
}

impl Default for S1Opts {
    fn default() -> Self {
        S1Opts { min_peers: 2, max_peers: 4, allow_spectators: true, allow_lockstep: false, faults: true, desync: false, frames_lo: 50, frames_hi: 900, long_run_pct: 10, mp_choices: &[1, 1, 2, 2, 3, 4, 6, 8, 8, 8, 10, 12], force_spectators: false, bias_held: false }
    }
}

pub fn ms(x: u64) -> u64 {
    x * 1000
}

/// C01's space: 2-4 peers, 1-2 local players each, delays, windows >= 1, sparse on/off, both
/// predictors, all input modes, tick jitter / pauses / rate ratios, per-packet loss <= 25 %,
/// duplication <= 10 %, delay/reorder, bursts shorter than the disconnect timeout.
pub fn s1(property: &str, scenario: &str, seed: u64, o: &S1Opts) -> Plan {
    let c = Ch::new(seed, "s1");
    let n_peers = c.range(&[1], o.min_peers as u64, o.max_peers as u64) as usize;
    let n_peers = if c.chance(&[2], 450_000) { o.min_peers.max(2).min(o.max_peers) } else { n_peers };
    let mut locals: Vec<Vec<usize>> = Vec::new();
    let mut np = 0;
    for p in 0..n_peers {
        let k = if c.chance(&[3, p as u64], 300_000) { 2 } else { 1 };
        locals.push((np..np + k).collect());
        np += k;
    }
    // interleave handles in some runs so that a peer's players are not contiguous
    if c.chance(&[4], 300_000) && np > 2 {
        let rot = c.range(&[5], 1, np as u64 - 1) as usize;
        for l in locals.iter_mut() {
            for h in l.iter_mut() {
                *h = (*h * rot.max(1) + rot) % np;
            }
        }
        // keep it a permutation: fall back to identity if collisions
        let mut seen = vec![false; np];
        let mut ok = true;
        for l in &locals {
            for &h in l {
                if seen[h] {
                    ok = false;
                }
                seen[h] = true;
            }
        }
        if !ok {
            let mut k = 0;
            for l in locals.iter_mut() {
                for h in l.iter_mut() {
                    *h = k;
                    k += 1;
                }
            }
        }
    }
    let mut mp = *c.pick(&[6], o.mp_choices);
    if o.allow_lockstep && c.chance(&[7], 200_000) {
        mp = 0;
    }
    let delay = *c.pick(&[8], &[0usize, 0, 0, 1, 2, 2, 3, 4, 6]);
    let fps = *c.pick(&[9], &[30usize, 60, 60, 60, 120]);
    let period = 1_000_000 / fps as u64;
    let input_mode = match if o.bias_held { c.range(&[10], 3, 6) } else { c.range(&[10], 0, 9) } {
        0..=2 => InputMode::Unique,
        3..=5 => InputMode::Held(c.range(&[11], 2, 30) as u32),
        6 => InputMode::MostlyDefault(c.range(&[12], 3, 12) as u32),
        7 => InputMode::Constant,
        _ => InputMode::PerAttempt,
    };
    let frames = if c.chance(&[13], o.long_run_pct * 10_000) { c.range(&[14], 1500, 5000) } else { c.range(&[15], o.frames_lo, o.frames_hi) };
    let mut horizon = frames * period + ms(400);

    // spectators
    let mut nodes: Vec<NodeSpec> = Vec::new();
    for p in 0..n_peers {
        nodes.push(NodeSpec { kind: NodeKind::Peer { locals: locals[p].clone() }, tick: TickSpec::default(), wall_offset_ms: 0, drain: true, timeout_ms: None, notify_ms: None });
    }
    let n_spec = if o.force_spectators {
        c.range(&[16], 1, 2)
    } else if o.allow_spectators {
        match c.range(&[16], 0, 9) {
            0..=5 => 0,
            6..=8 => 1,
            _ => 2,
        }
    } else {
        0
    };
    for s in 0..n_spec {
        let host = c.range(&[17, s as u64], 0, n_peers as u64 - 1) as usize;
        nodes.push(NodeSpec {
            kind: NodeKind::Spectator {
                host,
                max_frames_behind: *c.pick(&[18, s as u64], &[10usize, 10, 1, 5, 30, 59]),
                catchup_speed: *c.pick(&[19, s as u64], &[1usize, 1, 2, 4, 16, 70]),
            },
            tick: TickSpec::default(),
            wall_offset_ms: 0,
            drain: true, timeout_ms: None, notify_ms: None });
    }
    let n = nodes.len();

    // disruption budget: everything that silences a link, summed, must stay short of the
    // disconnect timeout and of ~90 frame-times (the 128-input cap towards spectators)
    let budget_total = ms(1400).min(90 * period);
    let mut budget = if o.faults { budget_total } else { 0 };
    let mut take = |want: u64| -> u64 {
        let got = want.min(budget);
        budget -= got;
        got
    };

    // ticks
    for i in 0..n {
        let k = i as u64;
        let ratio = *c.pick(&[20, k], &[1000u64, 1000, 1000, 1000, 970, 1030, 500, 2000, 1500]);
        let jitter = *c.pick(&[21, k], &[0u64, 0, period / 8, period / 2, period]);
        let mut pauses = Vec::new();
        if o.faults {
            let np_ = c.range(&[22, k], 0, 3);
            let np_ = if c.chance(&[23, k], 500_000) { 0 } else { np_ };
            for j in 0..np_ {
                let d = take(ms(c.range(&[24, k, j], 30, 700)));
                if d > 0 {
                    let at = c.range(&[25, k, j], ms(200), horizon.max(ms(300)));
                    pauses.push((at, at + d));
                }
            }
        }
        nodes[i].tick = TickSpec {
            start_us: c.range(&[26, k], 0, ms(60)),
            period_us: (period * ratio / 1000).max(1000),
            jitter_us: jitter,
            pauses,
            stop_us: None,
            prepoll_ppm: *c.pick(&[27, k], &[0u32, 0, 500_000, 1_000_000]),
            poll_period_us: 0,
            // the wait helpers: in lockstep they poll for up to a frame time (or the given timeout),
            // in rollback mode they are documented to behave exactly like advance_frame()
            use_wait: if mp == 0 { c.chance(&[28, k], 300_000) } else { c.chance(&[28, k], 80_000) },
            wait_timeout_us: match c.range(&[55, k], 0, 5) {
                0 | 1 | 2 => None,
                3 => Some(0),
                4 => Some(period / 2),
                _ => Some(3 * period),
            },
            poll_only: false,
        };
        nodes[i].wall_offset_ms = c.range(&[29, k], 1_000_000_000, 2_000_000_000_000);
        nodes[i].drain = true;
    }

    // links
    let mut links = Vec::new();
    let lossy = o.faults && c.chance(&[30], 700_000);
    let mut max_lat = 0;
    for a in 0..n {
        for b in 0..n {
            if a == b {
                continue;
            }
            let connected = match (&nodes[a].kind, &nodes[b].kind) {
                (NodeKind::Peer { .. }, NodeKind::Peer { .. }) => true,
                (NodeKind::Peer { .. }, NodeKind::Spectator { host, .. }) => *host == a,
                (NodeKind::Spectator { host, .. }, NodeKind::Peer { .. }) => *host == b,
                _ => false,
            };
            if !connected {
                continue;
            }
            let k = [31, a as u64, b as u64];
            let base = ms(*c.pick(&k, &[0u64, 1, 5, 10, 20, 20, 40, 80, 150]));
            let jit = base * c.range(&[32, a as u64, b as u64], 0, 100) / 100;
            let jit = if c.chance(&[33, a as u64, b as u64], 400_000) { 0 } else { jit };
            max_lat = max_lat.max(base + jit);
            links.push(LinkSpec {
                from: a,
                to: b,
                base_us: base,
                jitter_us: jit,
                loss_ppm: if lossy { *c.pick(&[34, a as u64, b as u64], &[0u32, 10_000, 50_000, 100_000, 250_000]) } else { 0 },
                dup_ppm: if lossy { *c.pick(&[35, a as u64, b as u64], &[0u32, 0, 20_000, 100_000]) } else { 0 },
            });
        }
    }

    // burst outages
    let mut windows = Vec::new();
    if o.faults {
        let nw = if c.chance(&[36], 500_000) { 0 } else { c.range(&[37], 1, 3) };
        for j in 0..nw {
            let l = &links[c.range(&[38, j], 0, links.len() as u64 - 1) as usize];
            let d = take(ms(c.range(&[39, j], 20, 900)));
            if d == 0 {
                continue;
            }
            let at = c.range(&[40, j], ms(100), horizon.max(ms(200)));
            let kinds = match c.range(&[41, j], 0, 5) {
                0 => 1u16 << K_INPUT_ACK,
                1 => 1u16 << K_INPUT,
                2 => (1u16 << K_QREPORT) | (1u16 << K_QREPLY) | (1u16 << K_KEEPALIVE),
                _ => ALL_KINDS,
            };
            let action = if c.chance(&[42, j], 250_000) { WinAction::Delay(ms(c.range(&[43, j], 20, 300)).min(d)) } else { WinAction::Drop };
            windows.push(Window { from: l.from, to: l.to, start_us: at, end_us: at + d, kinds, action: action.clone() });
            if c.chance(&[44, j], 400_000) {
                windows.push(Window { from: l.to, to: l.from, start_us: at, end_us: at + d, kinds, action });
            }
        }
    }
    let disruption_ms = (budget_total - budget) / 1000;
    let timeout_ms = 2000u64.max(disruption_ms * 2 + 2 * max_lat / 1000 + 1200);
    horizon += ms(disruption_ms);

    // desync detection is part of the swarm: on in every run that asks for it and in a quarter of the others
    let desync_interval = if o.desync || c.chance(&[52], 250_000) { c.range(&[45], 1, 12) as u32 } else { 0 };

    Plan {
        property: property.to_owned(),
        scenario: scenario.to_owned(),
        seed,
        cfg: RunCfg {
            num_players: np,
            max_prediction: mp,
            input_delay: delay,
            sparse: c.chance(&[46], 500_000),
            desync_interval,
            fps,
            timeout_ms,
            notify_ms: (timeout_ms / 4).max(100),
            predict_default: c.chance(&[47], 250_000),
            input_mode,
            hash_seed: mix(seed ^ 0x4a5),
            hash_per_map: c.chance(&[48], 300_000),
            rng_seed: mix(seed ^ 0x77),
            // in one run of ten every clock read inside a call returns a later instant than the one before
            clock_bump_us: if c.chance(&[49], 100_000) { *c.pick(&[50], &[1u64, 5, 20]) } else { 0 },
            variable_size_input: false,
            own_snapshots: c.chance(&[51], 200_000),
            shuffle_submissions: c.chance(&[53], 300_000),
            checksum_layout: c.range(&[54], 0, 2) as u8,
        },
        nodes,
        links,
        windows,
        pkt_faults: Vec::new(),
        api: Vec::new(),
        injects: Vec::new(),
        perturb: Vec::new(),
        horizon_us: horizon,
        mode: Mode::Net,
        random_faults_until_us: None,
        exempt_kinds: 0,
        oracle: OracleCfg::default(),
    }
}

/// Starvation: one peer is paused, or cut off one way or both ways, for a long time while the
/// timeouts are raised so that nobody is disconnected. The others sit at the prediction limit
/// (or in a lockstep stall) for thousands of ticks.
pub fn starve(mut plan: Plan, seed: u64) -> Plan {
    let c = Ch::new(seed, "starve");
    plan.cfg.timeout_ms = 120_000;
    plan.cfg.notify_ms = 30_000;
    let peers = plan.peers();
    let v = peers[c.range(&[1], 0, peers.len() as u64 - 1) as usize];
    let dur = if c.chance(&[2], 100_000) { ms(c.range(&[3], 10_000, 50_000)) } else { ms(c.range(&[4], 1000, 10_000)) };
    let at = c.range(&[5], ms(300), plan.horizon_us.max(ms(400)));
    match c.range(&[6], 0, 3) {
        0 | 1 => plan.nodes[v].tick.pauses.push((at, at + dur)),
        k => {
            for &o in &peers {
                if o != v {
                    plan.windows.push(Window { from: v, to: o, start_us: at, end_us: at + dur, kinds: ALL_KINDS, action: WinAction::Drop });
                    if k == 3 {
                        plan.windows.push(Window { from: o, to: v, start_us: at, end_us: at + dur, kinds: ALL_KINDS, action: WinAction::Drop });
                    }
                }
            }
        }
    }
    plan.horizon_us = plan.horizon_us.max(at) + dur + ms(2000);
    // a spectator whose host produces nothing for > 128 frame-times of outage is cut loose by
    // design; keep spectators out of starvation runs
    while matches!(plan.nodes.last().map(|n| &n.kind), Some(NodeKind::Spectator { .. })) {
        let last = plan.nodes.len() - 1;
        plan.nodes.pop();
        plan.links.retain(|l| l.from != last && l.to != last);
        plan.windows.retain(|w| w.from != last && w.to != last);
    }
    plan.scenario = format!("{}+starve", plan.scenario);
    plan
}

/// C04 with a disconnect that a peer only hears about: three peers on a fast clean network, one
/// of them drops a player through the API, the others adopt that from its connection statuses;
/// afterwards one of the remaining links is cut one way for a while. Whoever is still connected
/// must keep bounding the speculation of the others.
fn c04_gossip(property: &str, seed: u64) -> Plan {
    let c = Ch::new(seed, "c04g");
    let mut p = s1(property, "c04-heard-disconnect-then-starve", seed, &S1Opts { faults: false, min_peers: 3, max_peers: 3, allow_spectators: false, mp_choices: &[4, 6, 8, 12], frames_lo: 300, frames_hi: 500, long_run_pct: 0, ..Default::default() });
    p.cfg.timeout_ms = 120_000;
    p.cfg.notify_ms = 30_000;
    p.cfg.input_delay = p.cfg.input_delay.min(2);
    let per = 1_000_000 / p.cfg.fps as u64;
    for n in p.nodes.iter_mut() {
        n.tick.period_us = per;
        n.tick.jitter_us = 0;
        n.tick.pauses.clear();
        n.tick.start_us = n.tick.start_us.min(ms(20));
    }
    for l in p.links.iter_mut() {
        l.base_us = l.base_us.min(ms(8));
        l.jitter_us = l.jitter_us.min(ms(2));
        l.loss_ppm = 0;
        l.dup_ppm = 0;
    }
    p.windows.clear();
    let peers = p.peers();
    let v = peers[c.range(&[1], 0, 2) as usize];
    let caller = peers.iter().copied().find(|&x| x != v).unwrap();
    let third = peers.iter().copied().find(|&x| x != v && x != caller).unwrap();
    let handle = match &p.nodes[v].kind {
        NodeKind::Peer { locals } => locals[0],
        _ => unreachable!(),
    };
    // the dropped peer has fallen silent shortly before (its last packets reach everybody, so all
    // hold the same amount of its input): a cut-off adopted from another peer that lies below what
    // the adopter already holds is the recorded C10 defect, which this sub-batch must stay clear of
    let t0 = c.range(&[2], ms(1500), ms(3000));
    p.nodes[v].tick.stop_us = Some(t0);
    let t = t0 + c.range(&[6], ms(300), ms(800));
    p.api.push(ApiCall { node: caller, at_us: t, call: Api::Disconnect { handle } });
    let cut = t + c.range(&[3], ms(300), ms(1000));
    let d = c.range(&[4], ms(1000), ms(3000));
    let (from, to) = if c.chance(&[5], 500_000) { (caller, third) } else { (third, caller) };
    p.windows.push(Window { from, to, start_us: cut, end_us: cut + d, kinds: ALL_KINDS, action: WinAction::Drop });
    p.horizon_us = cut + d + ms(2000);
    p.oracle.liveness = None;
    p
}

/// C17 with contradicting reports in one call: three peers on a clean network; at one instant all
/// but node 0 stop, and right after that node 0 is handed two well-formed packets (the genuine last
/// input packets of two of the dead peers, only their connection statuses changed - scripted peers):
/// peer A reports peer B's player gone, peer B reports peer A's player gone, both naming the last
/// frame node 0 itself holds. Whom node 0 drops on whose word must not depend on hash order.
fn c17_contradicting_reports(property: &str, seed: u64) -> Plan {
    let c = Ch::new(seed, "c17x");
    let mut p = s1(property, "c17-contradicting-disconnect-reports", seed, &S1Opts { faults: false, min_peers: 3, max_peers: 3, allow_spectators: false, frames_lo: 300, frames_hi: 400, long_run_pct: 0, ..Default::default() });
    // (three peers, not four: a third dead peer's genuine, merely out-of-date report about the
    // player in question would enter the minimum - the recorded C10 stale-gossip defect)
    p.cfg.clock_bump_us = 0;
    p.cfg.timeout_ms = 2000;
    p.cfg.notify_ms = 500;
    for n in p.nodes.iter_mut() {
        n.tick.pauses.clear();
        n.tick.use_wait = false;
    }
    let t = c.range(&[1], ms(1500), ms(3000));
    let handle_of = |p: &Plan, i: usize| match &p.nodes[i].kind {
        NodeKind::Peer { locals } => locals[0],
        _ => 0,
    };
    for i in 1..3 {
        p.nodes[i].tick.stop_us = Some(t);
    }
    let (a, b) = if c.chance(&[2], 500_000) { (1, 2) } else { (2, 1) };
    // after everything the dead peers still had in flight has arrived (a report naming an earlier
    // last frame than node 0 holds is the recorded C10 defect), before any timer fires
    let at = t + ms(400) + c.range(&[3], 0, ms(80));
    let (ha, hb) = (handle_of(&p, a), handle_of(&p, b));
    let mut pair = vec![(a, hb), (b, ha)];
    if c.chance(&[4], 500_000) {
        pair.reverse();
    }
    for (from, gone) in pair {
        p.injects.push(Inject { at_us: at, to: 0, from_addr: from as u16, payload: Payload::MutateLastInput(InputMutation::Piggyback { garbage: 3, ack_delta: 0, disconnect_player: Some(gone), last_frame: i32::MIN }) });
    }
    p.horizon_us = at + ms(3500);
    p.oracle.liveness = None;
    p.oracle.lifecycle_timing = false;
    p
}

pub fn synctest(property: &str, seed: u64, faulty: bool, invalid: bool) -> Plan {
    let c = Ch::new(seed, "synctest");
    let np = c.range(&[1], 1, 4) as usize;
    let mp = c.range(&[2], 1, 12) as usize;
    let mut cd = if mp > 1 { c.range(&[3], 0, mp as u64 - 1) as usize } else { 0 };
    if faulty {
        cd = cd.max(2);
    }
    let mp = if faulty { mp.max(cd + 1) } else { mp };
    let frames = c.range(&[4], 30, 400) as u32;
    let mut sparse = false;
    if invalid {
        match c.range(&[5], 0, 2) {
            0 => cd = mp + c.range(&[6], 0, 5) as usize,
            1 => sparse = true,
            _ => {
                cd = mp;
            }
        }
    }
    let perturb = if faulty {
        if c.chance(&[13], 500_000) {
            // a one-off glitch: only the k-th simulation of the frame is wrong (frame late enough for k
            // simulations to happen). k >= 2: a glitch in the first, live simulation alone is rolled back
            // and re-simulated by the next call before the resulting state is ever saved, so no
            // checksum can see it - that case is outside what a sync test can flag
            let k = c.range(&[14], 2, (cd as u64).max(2)) as u32;
            vec![Perturb { node: 0, frame: c.range(&[7], cd as u64 + 2, (frames as u64).saturating_sub(2 * cd as u64 + 8).max(cd as u64 + 2)) as i32, mode: PerturbMode::NondetOnce(k) }]
        } else {
            vec![Perturb { node: 0, frame: c.range(&[7], 1, (frames as u64).saturating_sub(cd as u64 + 8).max(1)) as i32, mode: PerturbMode::Nondet }]
        }
    } else {
        Vec::new()
    };
    Plan {
        property: property.to_owned(),
        scenario: if invalid { "synctest-invalid" } else if faulty { "synctest-nondeterministic" } else { "synctest-deterministic" }.to_owned(),
        seed,
        cfg: RunCfg {
            num_players: np,
            max_prediction: mp,
            input_delay: c.range(&[8], 0, 6) as usize,
            sparse,
            desync_interval: 0,
            fps: 60,
            timeout_ms: 2000,
            notify_ms: 500,
            predict_default: c.chance(&[9], 300_000),
            input_mode: match c.range(&[10], 0, 3) {
                0 => InputMode::Unique,
                1 => InputMode::Held(c.range(&[11], 2, 20) as u32),
                2 => InputMode::MostlyDefault(5),
                _ => InputMode::Constant,
            },
            hash_seed: mix(seed ^ 0x4a5),
            hash_per_map: c.chance(&[12], 500_000),
            rng_seed: mix(seed ^ 0x77),
            clock_bump_us: 0,
            variable_size_input: false,
            own_snapshots: c.chance(&[13], 300_000),
            shuffle_submissions: c.chance(&[16], 350_000),
            checksum_layout: c.range(&[15], 0, 2) as u8,
        },
        nodes: Vec::new(),
        links: Vec::new(),
        windows: Vec::new(),
        pkt_faults: Vec::new(),
        api: Vec::new(),
        injects: Vec::new(),
        perturb,
        horizon_us: 0,
        mode: Mode::SyncTest { check_distance: cd, frames, expect_reject: invalid },
        random_faults_until_us: None,
        exempt_kinds: 0,
        oracle: OracleCfg::default(),
    }
}

const ALL_WINDOWS: &[usize] = &[0, 0, 1, 1, 2, 2, 3, 4, 5, 6, 7, 8, 8, 9, 10, 11, 12];

/// Scenario dispatch: which plan does run `index` of a check execute?
pub fn generate(property: &str, tier: &str, seed: u64, index: u64) -> Plan {
    match property {
        "C02" => match index % 10 {
            0 | 1 => synctest(property, seed, false, false),
            2 | 3 => starve(s1(property, "s1-allwindows", seed, &S1Opts { allow_lockstep: true, mp_choices: ALL_WINDOWS, max_peers: 3, ..Default::default() }), seed),
            4 => s1(property, "s1-lockstep", seed, &S1Opts { mp_choices: &[0], ..Default::default() }),
            5 => s1(property, "s1-faultfree", seed, &S1Opts { faults: false, allow_lockstep: true, ..Default::default() }),
            _ => s1(property, "s1", seed, &S1Opts { allow_lockstep: true, ..Default::default() }),
        },
        "C03" => match index % 5 {
            0 => s1(property, "s1-faultfree", seed, &S1Opts { faults: false, ..Default::default() }),
            1 => s1(property, "s1-held", seed, &S1Opts { bias_held: true, ..Default::default() }),
            // the Disconnected clause of the statement needs a disconnect: two peers, one dies or is
            // disconnected through the API (C07's scenario, judged by the status oracle)
            2 => c07(property, seed),
            _ => s1(property, "s1", seed, &S1Opts::default()),
        },
        "C04" if index % 5 == 4 => c04_gossip(property, seed),
        "C04" => match index % 4 {
            0 => s1(property, "s1-allwindows", seed, &S1Opts { mp_choices: ALL_WINDOWS, ..Default::default() }),
            1 => starve(s1(property, "s1-lockstep", seed, &S1Opts { mp_choices: &[0], max_peers: 3, ..Default::default() }), seed),
            _ => starve(s1(property, "s1-allwindows", seed, &S1Opts { mp_choices: ALL_WINDOWS, max_peers: 3, ..Default::default() }), seed),
        },
        "C05" => c05(property, tier, seed, index),
        "C06" => c06(property, seed),
        "C07" => c07(property, seed),
        "C08" => c08(property, tier, seed, index),
        "C09" => c09(property, seed, index),
        "C10" => c10(property, seed),
        "C11" => c11(property, seed, index),
        "C12" => c12(property, seed, index),
        "C18" => c18(property, seed, index),
        "C15" => c15(property, seed, index),
        "C16" => c16(property, seed, index),
        "C17" if index % 7 == 3 => {
            // run-time delay changes with several local players: the order in which a session walks
            // its local players must not matter either
            let mut p = c11(property, seed, index);
            p.scenario = format!("c17-{}", p.scenario);
            p.cfg.clock_bump_us = 0;
            p.oracle.liveness = None;
            p
        }
        "C17" if index % 7 == 5 || index % 7 == 6 => {
            // a player dies or is disconnected while the host serves a spectator: the spectator's
            // stream is assembled per frame from all players' inputs, dead ones included, and must
            // not depend on the order in which a map yields them
            let mut p = if index % 7 == 5 { c07(property, seed) } else { c06(property, seed) };
            p.scenario = format!("c17-{}", p.scenario);
            p.cfg.clock_bump_us = 0;
            p.oracle.liveness = None;
            p.oracle.lifecycle_timing = false;
            p.injects.clear();
            p
        }
        "C17" if index % 13 == 12 => c17_contradicting_reports(property, seed),
        "C17" if index % 11 == 10 => {
            // handshakes under loss, duplication and round trips far above the retry interval: when a
            // session turns Running must not depend on hash order or on the handshake numbers
            let mut p = c12(property, seed, 9);
            p.scenario = format!("c17-{}", p.scenario);
            p.cfg.clock_bump_us = 0;
            p.injects.clear();
            p
        }
        "C17" if index % 7 == 4 => {
            // a really diverging game with detection on: several mismatching reports can be pending
            // at once, and the order in which they are reported must not depend on hash order either
            let mut p = c09(property, seed, 1);
            p.scenario = "c17-divergence".into();
            // the premise is "same clock readings": a clock that moves with every read would hand
            // different instants to endpoints that are merely visited in another order
            p.cfg.clock_bump_us = 0;
            p
        }
        "C17" => {
            let mut p = s1(property, if index % 2 == 0 { "s1-3to4peers" } else { "s1" }, seed, &S1Opts { min_peers: if index % 2 == 0 { 3 } else { 2 }, desync: index % 3 == 0, allow_lockstep: true, frames_lo: 80, frames_hi: 500, long_run_pct: 3, ..Default::default() });
            p.cfg.clock_bump_us = 0;
            p
        }
        "C13" => match index % 8 {
            0 => synctest(property, seed, false, true),
            1..=3 => synctest(property, seed, false, false),
            _ => synctest(property, seed, true, false),
        },
        "C01" => {
            // sub-batches: fault-free and fault-injecting configurations are kept separate
            match index % 8 {
                0 => s1(property, "s1-faultfree", seed, &S1Opts { faults: false, ..Default::default() }),
                1 => s1(property, "s1-3to4peers", seed, &S1Opts { min_peers: 3, ..Default::default() }),
                2 => {
                    // an input type whose serialised size depends on the value
                    // (only where every endpoint carries exactly one player: GGRS splits a frame evenly
                    // between the players of an endpoint, so inputs of different sizes on one endpoint -
                    // two local players, or any spectator - cannot be decoded at all; see DESIGN.md §15)
                    let mut p = s1(property, "s1-variable-size-input", seed, &S1Opts { allow_spectators: false, ..Default::default() });
                    let one_each = p.nodes.iter().all(|n| matches!(&n.kind, NodeKind::Peer { locals } if locals.len() == 1));
                    p.cfg.variable_size_input = one_each;
                    if !one_each {
                        p.scenario = "s1".into();
                    }
                    p
                }
                _ => s1(property, "s1", seed, &S1Opts::default()),
            }
        }
        _ => s1(property, "s1", seed, &S1Opts::default()),
    }
}

// ------------------------------------------------------------------ C05

pub const C05_M: u64 = 60;
const C05_KINDS: u64 = 3;

/// The bases of the systematic part: topology x window x delay x sparse.
pub fn c05_bases() -> Vec<(u8, usize, usize, bool)> {
    let mut v = Vec::new();
    for topo in 0..3u8 {
        for mp in [0usize, 1, 2, 8] {
            for delay in [0usize, 2] {
                for sparse in [false, true] {
                    v.push((topo, mp, delay, sparse));
                }
            }
        }
    }
    v
}

fn c05_base_plan(property: &str, seed: u64, b: (u8, usize, usize, bool)) -> Plan {
    let (topo, mp, delay, sparse) = b;
    let period = 16_666;
    let mk = |kind: NodeKind, start: u64| NodeSpec {
        kind,
        tick: TickSpec { start_us: start, period_us: period, ..Default::default() },
        wall_offset_ms: 1_700_000_000_000 + start,
        drain: true, timeout_ms: None, notify_ms: None };
    let (nodes, np) = match topo {
        0 => (vec![mk(NodeKind::Peer { locals: vec![0] }, 0), mk(NodeKind::Peer { locals: vec![1] }, 3000)], 2),
        1 => (
            vec![
                mk(NodeKind::Peer { locals: vec![0] }, 0),
                mk(NodeKind::Peer { locals: vec![1] }, 3000),
                mk(NodeKind::Spectator { host: 0, max_frames_behind: 5, catchup_speed: 4 }, 7000),
            ],
            2,
        ),
        _ => (vec![mk(NodeKind::Peer { locals: vec![0] }, 0), mk(NodeKind::Peer { locals: vec![1] }, 3000), mk(NodeKind::Peer { locals: vec![2] }, 6000)], 3),
    };
    let mut links = Vec::new();
    for a in 0..nodes.len() {
        for bb in 0..nodes.len() {
            let ok = a != bb
                && match (&nodes[a].kind, &nodes[bb].kind) {
                    (NodeKind::Peer { .. }, NodeKind::Peer { .. }) => true,
                    (NodeKind::Peer { .. }, NodeKind::Spectator { host, .. }) => *host == a,
                    (NodeKind::Spectator { host, .. }, NodeKind::Peer { .. }) => *host == bb,
                    _ => false,
                };
            if ok {
                links.push(LinkSpec { from: a, to: bb, base_us: 20_000, jitter_us: 0, loss_ppm: 0, dup_ppm: 0 });
            }
        }
    }
    let heal = ms(2000);
    let deadline = ms(4500);
    Plan {
        property: property.to_owned(),
        scenario: format!("c05-systematic-topo{topo}"),
        seed,
        cfg: RunCfg {
            num_players: np,
            max_prediction: mp,
            input_delay: delay,
            sparse,
            desync_interval: 0,
            fps: 60,
            timeout_ms: 2000,
            notify_ms: 500,
            predict_default: false,
            input_mode: InputMode::Held(3),
            hash_seed: 7,
            hash_per_map: false,
            rng_seed: 11,
            clock_bump_us: 0,
            variable_size_input: false,
            own_snapshots: false,
            shuffle_submissions: false,
            checksum_layout: 0,
        },
        nodes,
        links,
        windows: Vec::new(),
        pkt_faults: Vec::new(),
        api: Vec::new(),
        injects: Vec::new(),
        perturb: Vec::new(),
        horizon_us: deadline,
        mode: Mode::Net,
        random_faults_until_us: Some(0),
        exempt_kinds: 0,
        oracle: OracleCfg { liveness: Some(Liveness { heal_us: heal, deadline_us: deadline, min_frames: 5, require_running: true, nodes: Vec::new(), spectator_lag: true }), no_disconnect_events: true, ..Default::default() },
    }
}

fn c05_fault(plan: &Plan, id: u64) -> PktFault {
    let kind = id % C05_KINDS;
    let n = (id / C05_KINDS) % C05_M;
    let l = &plan.links[(id / (C05_KINDS * C05_M)) as usize];
    PktFault {
        from: l.from,
        to: l.to,
        n,
        action: match kind {
            0 => PktAction::Drop,
            1 => PktAction::Dup(30_000),
            _ => PktAction::Delay(250_000),
        },
    }
}

fn c05_slots(plan: &Plan) -> u64 {
    plan.links.len() as u64 * C05_M * C05_KINDS
}

/// Number of single-fault runs over all bases.
pub fn c05_singles() -> u64 {
    c05_bases().iter().map(|b| c05_slots(&c05_base_plan("C05", 0, *b))).sum()
}

fn nth_pair(n: u64, mut k: u64) -> (u64, u64) {
    let mut i = 0;
    loop {
        let row = n - 1 - i;
        if k < row {
            return (i, i + 1 + k);
        }
        k -= row;
        i += 1;
    }
}

/// All pairs of faults on the bases with two peers (topology 0) and on the host<->spectator
/// links of topology 1.
pub fn c05_pairs_total() -> u64 {
    let mut t = 0;
    for b in c05_bases() {
        let slots = match b.0 {
            0 => 2 * C05_M * C05_KINDS,
            1 => 2 * C05_M * C05_KINDS,
            _ => 0,
        };
        if slots > 0 {
            t += slots * (slots - 1) / 2;
        }
    }
    t
}

fn c05_single(property: &str, seed: u64, mut k: u64) -> Plan {
    for b in c05_bases() {
        let mut p = c05_base_plan(property, seed, b);
        let s = c05_slots(&p);
        if k < s {
            let f = c05_fault(&p, k);
            p.pkt_faults.push(f);
            return p;
        }
        k -= s;
    }
    unreachable!()
}

/// For topology 1 the enumerated slots are the host->spectator and spectator->host links
/// (the last two links of the plan); for topology 0 all links.
fn c05_pair(property: &str, seed: u64, mut k: u64) -> Plan {
    for b in c05_bases() {
        if b.0 == 2 {
            continue;
        }
        let slots = 2 * C05_M * C05_KINDS;
        let pairs = slots * (slots - 1) / 2;
        if k < pairs {
            let mut p = c05_base_plan(property, seed, b);
            let (i, j) = nth_pair(slots, k);
            let off = if b.0 == 1 {
                // links are ordered (0,1),(0,2),(1,0),(2,0): remap onto (0,2) and (2,0)
                |x: u64| {
                    let per = C05_M * C05_KINDS;
                    if x < per {
                        per + x
                    } else {
                        3 * per + (x - per)
                    }
                }
            } else {
                |x: u64| x
            };
            let (f1, f2) = (c05_fault(&p, off(i)), c05_fault(&p, off(j)));
            p.scenario = format!("c05-pairs-topo{}", b.0);
            p.pkt_faults.push(f1);
            if !(p.pkt_faults[0].from == f2.from && p.pkt_faults[0].to == f2.to && p.pkt_faults[0].n == f2.n) {
                p.pkt_faults.push(f2);
            }
            return p;
        }
        k -= pairs;
    }
    unreachable!()
}

fn c05_random_pair(property: &str, seed: u64) -> Plan {
    let c = Ch::new(seed, "c05pair");
    let bases = c05_bases();
    let b = bases[c.range(&[1], 0, bases.len() as u64 - 1) as usize];
    let mut p = c05_base_plan(property, seed, b);
    let s = c05_slots(&p);
    let k = c.range(&[2], 2, 3);
    for j in 0..k {
        let f = c05_fault(&p, c.range(&[3, j], 0, s - 1));
        if !p.pkt_faults.iter().any(|x| x.from == f.from && x.to == f.to && x.n == f.n) {
            p.pkt_faults.push(f);
        }
    }
    p.scenario = "c05-sampled-pairs-triples".into();
    p
}

/// Seeded search: burst outages in either or both directions shorter than the timeout,
/// kind-targeted loss, small windows and non-zero delays over-represented, spectators common.
fn c05_search(property: &str, seed: u64) -> Plan {
    let c = Ch::new(seed, "c05search");
    let mut p = s1(
        property,
        "c05-search",
        seed,
        &S1Opts { faults: false, allow_lockstep: true, max_peers: 3, mp_choices: &[0, 0, 1, 1, 2, 2, 3, 4, 8], frames_lo: 120, frames_hi: 400, long_run_pct: 0, ..Default::default() },
    );
    // more spectators than in S1
    if !p.nodes.iter().any(|n| matches!(n.kind, NodeKind::Spectator { .. })) && c.chance(&[1], 500_000) {
        let host = c.range(&[2], 0, p.peers().len() as u64 - 1) as usize;
        let id = p.nodes.len();
        let per = 1_000_000 / p.cfg.fps as u64;
        p.nodes.push(NodeSpec {
            kind: NodeKind::Spectator { host, max_frames_behind: *c.pick(&[3], &[2usize, 5, 10]), catchup_speed: *c.pick(&[4], &[2usize, 4, 8]) },
            tick: TickSpec { start_us: 5000, period_us: per, ..Default::default() },
            wall_offset_ms: 5_000_000,
            drain: true, timeout_ms: None, notify_ms: None });
        let lat = ms(*c.pick(&[5], &[1u64, 10, 30, 60]));
        p.links.push(LinkSpec { from: host, to: id, base_us: lat, jitter_us: lat / 3, loss_ppm: 0, dup_ppm: 0 });
        p.links.push(LinkSpec { from: id, to: host, base_us: lat, jitter_us: lat / 3, loss_ppm: 0, dup_ppm: 0 });
    }
    // regular ticks: liveness is only demanded of sessions that are driven regularly
    let per = 1_000_000 / p.cfg.fps as u64;
    for n in p.nodes.iter_mut() {
        n.tick.period_us = per;
        n.tick.jitter_us = n.tick.jitter_us.min(per / 4);
        n.tick.pauses.clear();
        n.tick.use_wait = false;
        if let NodeKind::Spectator { catchup_speed, .. } = &mut n.kind {
            *catchup_speed = (*catchup_speed).max(2);
        }
    }
    let max_lat = p.links.iter().map(|l| l.base_us + l.jitter_us).max().unwrap_or(0).min(ms(80));
    for l in p.links.iter_mut() {
        l.base_us = l.base_us.min(ms(60));
        l.jitter_us = l.jitter_us.min(ms(20));
        l.loss_ppm = *c.pick(&[6, l.from as u64, l.to as u64], &[0u32, 0, 20_000, 100_000]);
        l.dup_ppm = *c.pick(&[7, l.from as u64, l.to as u64], &[0u32, 0, 50_000]);
    }
    p.cfg.timeout_ms = *c.pick(&[8], &[2000u64, 2000, 3000]);
    p.cfg.notify_ms = 500;
    // total outage budget: shorter than timeout - 600 ms - 2 * latency and than 100 frame-times
    let mut budget = (ms(p.cfg.timeout_ms) - ms(600) - 2 * max_lat).min(100 * per);
    let nw = c.range(&[9], 1, 3);
    let mut last_end = 0;
    let mut spent: Vec<((usize, usize), u64)> = Vec::new();
    for j in 0..nw {
        if budget < ms(20) {
            break;
        }
        let l = p.links[c.range(&[11, j], 0, p.links.len() as u64 - 1) as usize].clone();
        // on a spectator link lost packets or lost acks count against the host's 128-input cap
        // together with one round trip (beyond that the host disconnects the spectator by design)
        let both = c.chance(&[16, j], 350_000);
        let touches_spec = matches!(p.nodes[l.to].kind, NodeKind::Spectator { .. }) || matches!(p.nodes[l.from].kind, NodeKind::Spectator { .. });
        let to_spec = matches!(p.nodes[l.to].kind, NodeKind::Spectator { .. }) || (both && touches_spec);
        let from_spec = touches_spec && !to_spec;
        let cap_total = if to_spec || from_spec { (100 * per).saturating_sub(2 * max_lat + ms(50)) } else { u64::MAX };
        // the cap is per pair of nodes and cumulative: several windows on one link add up
        let pair = (l.from.min(l.to), l.from.max(l.to));
        let used = spent.iter().filter(|(k, _)| *k == pair).map(|(_, v)| *v).sum::<u64>();
        let hi = budget.min(cap_total.saturating_sub(used));
        if hi < ms(20) {
            continue;
        }
        let d = c.range(&[10, j], ms(20), hi);
        budget -= d;
        spent.push((pair, d));
        let at = if c.chance(&[12, j], 250_000) { c.range(&[13, j], 0, ms(300)) } else { c.range(&[14, j], ms(300), ms(3000)) };
        let kinds = match c.range(&[15, j], 0, 7) {
            0 | 1 => 1u16 << K_INPUT_ACK,
            2 => 1u16 << K_INPUT,
            3 => (1u16 << K_INPUT_ACK) | (1u16 << K_INPUT),
            4 => (1u16 << K_SYNC_REP) | (1u16 << K_SYNC_REQ),
            _ => ALL_KINDS,
        };
        p.windows.push(Window { from: l.from, to: l.to, start_us: at, end_us: at + d, kinds, action: WinAction::Drop });
        if both {
            p.windows.push(Window { from: l.to, to: l.from, start_us: at, end_us: at + d, kinds, action: WinAction::Drop });
        }
        last_end = last_end.max(at + d);
    }
    // sequential windows must not chain into one silence longer than the budget: serialise them with gaps
    p.windows.sort_by_key(|w| w.start_us);
    let heal = last_end + 2 * max_lat + ms(300);
    p.random_faults_until_us = Some(last_end);
    p.horizon_us = heal + ms(3000);
    p.oracle.liveness = Some(Liveness { heal_us: heal, deadline_us: heal + ms(3000), min_frames: 5, require_running: true, nodes: Vec::new(), spectator_lag: true });
    p.oracle.no_disconnect_events = true;
    p
}

pub fn c05_runs(tier: &str) -> u64 {
    if tier == "thorough" {
        c05_singles() + c05_pairs_total() + 300_000
    } else {
        c05_singles() + 24_000
    }
}

pub fn c05(property: &str, tier: &str, seed: u64, index: u64) -> Plan {
    let singles = c05_singles();
    if index < singles {
        return c05_single(property, seed, index);
    }
    let k = index - singles;
    if tier == "thorough" {
        let pairs = c05_pairs_total();
        if k < pairs {
            return c05_pair(property, seed, k);
        }
    }
    if k % 3 == 0 {
        c05_random_pair(property, seed)
    } else {
        c05_search(property, seed)
    }
}

// ------------------------------------------------------------------ C07 / C12

fn two_peer_base(property: &str, scenario: &str, seed: u64, c: &Ch, allow_spectator: bool) -> Plan {
    let k0 = if c.chance(&[100], 350_000) { 2 } else { 1 };
    let k1 = if c.chance(&[101], 350_000) { 2 } else { 1 };
    let np = k0 + k1;
    let fps = 60usize;
    let mut nodes = vec![
        NodeSpec { kind: NodeKind::Peer { locals: (0..k0).collect() }, tick: TickSpec::default(), wall_offset_ms: c.range(&[102], 1_000_000, 2_000_000_000_000), drain: true, timeout_ms: None, notify_ms: None },
        NodeSpec { kind: NodeKind::Peer { locals: (k0..np).collect() }, tick: TickSpec::default(), wall_offset_ms: c.range(&[103], 1_000_000, 2_000_000_000_000), drain: true, timeout_ms: None, notify_ms: None },
    ];
    if allow_spectator && c.chance(&[104], 300_000) {
        nodes.push(NodeSpec {
            kind: NodeKind::Spectator { host: 0, max_frames_behind: *c.pick(&[105], &[5usize, 10, 30]), catchup_speed: *c.pick(&[106], &[1usize, 2, 8]) },
            tick: TickSpec::default(),
            wall_offset_ms: 77,
            drain: true, timeout_ms: None, notify_ms: None });
    }
    for (i, n) in nodes.iter_mut().enumerate() {
        n.tick = TickSpec {
            start_us: c.range(&[107, i as u64], 0, ms(40)),
            period_us: 16_666,
            jitter_us: *c.pick(&[108, i as u64], &[0u64, 0, 2000, 8000]),
            prepoll_ppm: *c.pick(&[109, i as u64], &[0u32, 500_000, 1_000_000]),
            ..Default::default()
        };
    }
    let mut links = Vec::new();
    for a in 0..nodes.len() {
        for b in 0..nodes.len() {
            let ok = a != b && (a < 2 && b < 2 || a == 0 && b == 2 || a == 2 && b == 0);
            if ok {
                let base = ms(*c.pick(&[110, a as u64, b as u64], &[0u64, 1, 5, 10, 20, 40, 80]));
                links.push(LinkSpec { from: a, to: b, base_us: base, jitter_us: base * c.range(&[111, a as u64, b as u64], 0, 80) / 100, loss_ppm: 0, dup_ppm: 0 });
            }
        }
    }
    let mp = *c.pick(&[112], ALL_WINDOWS);
    Plan {
        property: property.to_owned(),
        scenario: scenario.to_owned(),
        seed,
        cfg: RunCfg {
            num_players: np,
            max_prediction: mp,
            input_delay: *c.pick(&[113], &[0usize, 0, 1, 2, 4]),
            sparse: c.chance(&[114], 500_000),
            // desync detection is part of the swarm here too (checksum reports keep being produced
            // for endpoints that have stopped running)
            desync_interval: if c.chance(&[122], 250_000) { c.range(&[123], 1, 12) as u32 } else { 0 },
            fps,
            timeout_ms: 2000,
            notify_ms: 500,
            predict_default: c.chance(&[115], 250_000),
            input_mode: match c.range(&[116], 0, 3) {
                0 => InputMode::Unique,
                1 => InputMode::Held(c.range(&[117], 2, 20) as u32),
                2 => InputMode::MostlyDefault(6),
                _ => InputMode::PerAttempt,
            },
            hash_seed: mix(seed ^ 0x4a5),
            hash_per_map: c.chance(&[118], 300_000),
            rng_seed: mix(seed ^ 0x77),
            clock_bump_us: 0,
            variable_size_input: false,
            own_snapshots: c.chance(&[119], 200_000),
            shuffle_submissions: c.chance(&[120], 300_000),
            checksum_layout: c.range(&[121], 0, 2) as u8,
        },
        nodes,
        links,
        windows: Vec::new(),
        pkt_faults: Vec::new(),
        api: Vec::new(),
        injects: Vec::new(),
        perturb: Vec::new(),
        horizon_us: ms(5000),
        mode: Mode::Net,
        random_faults_until_us: None,
        exempt_kinds: 0,
        oracle: OracleCfg::default(),
    }
}

/// C07: two peers, the remote dies (or is disconnected through the API) at a seeded instant.
pub fn c07(property: &str, seed: u64) -> Plan {
    let c = Ch::new(seed, "c07");
    let mut p = two_peer_base(property, "c07-kill", seed, &c, true);
    // node 0 survives (it hosts the spectator), node 1 is the victim
    p.cfg.timeout_ms = c.range(&[1], 300, 3000);
    p.cfg.notify_ms = c.range(&[2], 100, 800).min(p.cfg.timeout_ms - 50);
    p.nodes[0].tick.period_us = ms(c.range(&[3], 4, 40));
    p.nodes[0].tick.jitter_us = *c.pick(&[4], &[0u64, 0, 1000, 5000]);
    for l in p.links.iter_mut() {
        l.loss_ppm = *c.pick(&[5, l.from as u64, l.to as u64], &[0u32, 0, 20_000, 100_000]);
        l.dup_ppm = *c.pick(&[6, l.from as u64, l.to as u64], &[0u32, 0, 50_000]);
    }
    let t_kill = if c.chance(&[7], 250_000) { c.range(&[8], 0, ms(600)) } else { c.range(&[9], ms(600), ms(4000)) };
    let max_lat = p.links.iter().map(|l| l.base_us + l.jitter_us).max().unwrap_or(0);
    if c.chance(&[10], 300_000) {
        // explicit disconnect_player on one of the victim's handles instead of a death
        let handle = match &p.nodes[1].kind {
            NodeKind::Peer { locals } => locals[c.range(&[11], 0, locals.len() as u64 - 1) as usize],
            _ => unreachable!(),
        };
        p.api.push(ApiCall { node: 0, at_us: t_kill.max(ms(300)), call: Api::Disconnect { handle } });
        p.scenario = "c07-disconnect-player".into();
    } else {
        p.nodes[1].tick.stop_us = Some(t_kill);
        // some of its last packets never arrive - or arrive as stragglers, after the survivor has
        // already cut the player off (its endpoint lingers for 5 s): they must change nothing
        if c.chance(&[12], 500_000) {
            let back = c.range(&[13], 0, ms(150));
            // (only input packets straggle: a held-up handshake reply would let the survivor finish a
            // handshake with a peer that died seconds ago, which is a different story)
            let (kinds, action) = if c.chance(&[22], 400_000) { (1u16 << K_INPUT, WinAction::Delay(back + ms(p.cfg.timeout_ms + c.range(&[23], 300, 2500)))) } else { (ALL_KINDS, WinAction::Drop) };
            p.windows.push(Window { from: 1, to: 0, start_us: t_kill.saturating_sub(back), end_us: t_kill + ms(10), kinds, action });
        }
        // the survivor may be stalled (paused) around the death
        if c.chance(&[14], 200_000) {
            let a = t_kill.saturating_sub(c.range(&[15], 0, ms(200)));
            p.nodes[0].tick.pauses.push((a, a + c.range(&[16], ms(50), ms(p.cfg.timeout_ms + 300))));
        }
    }
    // the survivor's timers start at its last poll that received something: after a pause that is the pause's end
    let pause_end = p.nodes[0].tick.pauses.iter().map(|x| x.1).max().unwrap_or(0);
    // stragglers are meant to arrive after the cut-off: a paused survivor's timers only start at the pause's end
    for w in p.windows.iter_mut() {
        if let WinAction::Delay(d) = &mut w.action {
            *d += pause_end.saturating_sub(t_kill) + max_lat;
        }
    }
    let heal = t_kill.max(pause_end) + ms(p.cfg.timeout_ms) + max_lat + ms(700);
    p.horizon_us = heal + ms(2000);
    p.oracle.lifecycle_timing = true;
    // the statement is about the survivor (and its spectators); a spectator can only keep up if it
    // ticks at least as fast as its host or catches up faster than it falls behind
    let host_period = p.nodes[0].tick.period_us;
    let live = vec![0];
    for (i, n) in p.nodes.iter_mut().enumerate() {
        if let NodeKind::Spectator { catchup_speed, max_frames_behind, .. } = &mut n.kind {
            *catchup_speed = 8;
            *max_frames_behind = 5;
            n.tick.period_us = n.tick.period_us.min(host_period);
            let _ = i;
        }
    }
    p.oracle.liveness = Some(Liveness { heal_us: heal, deadline_us: heal + ms(2000), min_frames: 8, require_running: false, nodes: live, spectator_lag: false });
    // crash and restart: the dead peer's program is launched again on the same address. The new
    // instance has another magic number, asks for a handshake every 200 ms and answers nothing it
    // recognises; to the survivor it is foreign traffic from a known address, and the old
    // connection must time out exactly as if the address had fallen silent
    if p.nodes[1].tick.stop_us.is_some() && c.chance(&[17], 400_000) {
        let mut t = t_kill + c.range(&[18], ms(50), ms(900));
        let mut j = 0u64;
        while t < p.horizon_us {
            let body = if c.chance(&[19, j], 800_000) { MBody::SyncRequest { random_request: c.u(&[20, j]) as u32 } } else { forged_body(&c, 1000 + j, p.cfg.num_players) };
            p.injects.push(Inject { at_us: t, to: 0, from_addr: 1, payload: Payload::Msg { magic: MagicSel::Wrong, body } });
            t += ms(200) + c.range(&[21, j], 0, ms(20));
            j += 1;
        }
        p.scenario = format!("{}+relaunch", p.scenario);
    }
    p
}

/// C12: handshakes under loss/duplication/reordering, irregular poll cadences, silences around
/// the notify delay and the timeout, never-drained events, stray replies, the quiet pair.
pub fn c12(property: &str, seed: u64, index: u64) -> Plan {
    let c = Ch::new(seed, "c12");
    match index % 10 {
        0 => {
            // quiet pair: two sessions that merely poll, default timeouts, healthy link, 60 s
            let mut p = two_peer_base(property, "c12-quiet-pair", seed, &c, false);
            for n in p.nodes.iter_mut() {
                n.tick.poll_only = true;
                n.tick.period_us = ms(c.range(&[1, n.wall_offset_ms], 1, 50));
                n.tick.jitter_us = n.tick.period_us / 4;
            }
            for l in p.links.iter_mut() {
                l.base_us = l.base_us.min(ms(70));
                l.jitter_us = l.jitter_us.min(ms(30));
            }
            p.horizon_us = ms(60_000);
            p.oracle.no_interrupted_events = true;
            p.oracle.no_disconnect_events = true;
            p.oracle.lifecycle_timing = true;
            p
        }
        1..=3 => {
            // silences of every length around the notify delay and the timeout
            let mut p = two_peer_base(property, "c12-silences", seed, &c, true);
            p.cfg.timeout_ms = *c.pick(&[2], &[2000u64, 2000, 1000, 3000]);
            p.cfg.notify_ms = *c.pick(&[3], &[500u64, 500, 200, 900]).min(&(p.cfg.timeout_ms - 100));
            for n in p.nodes.iter_mut() {
                n.tick.period_us = ms(c.range(&[4, n.wall_offset_ms], 1, 100));
                n.tick.jitter_us = n.tick.period_us / 2;
                n.drain = true;
            }
            let nw = c.range(&[5], 1, 3);
            let mut t = ms(c.range(&[6], 800, 1500));
            for j in 0..nw {
                let target = if c.chance(&[7, j], 500_000) { p.cfg.notify_ms } else { p.cfg.timeout_ms };
                let d = ms((target as i64 + c.range(&[8, j], 0, 400) as i64 - 200).max(20) as u64);
                let both = c.chance(&[9, j], 600_000);
                // with a spectator attached, half of the silences fall on the host -> spectator link:
                // a spectator session has the same two timers
                let (a, b) = if p.nodes.len() == 3 && c.chance(&[11, j], 500_000) { (0, 2) } else { (1, 0) };
                p.windows.push(Window { from: a, to: b, start_us: t, end_us: t + d, kinds: ALL_KINDS, action: WinAction::Drop });
                if both {
                    p.windows.push(Window { from: b, to: a, start_us: t, end_us: t + d, kinds: ALL_KINDS, action: WinAction::Drop });
                }
                t += d + ms(c.range(&[10, j], 300, 1500));
            }
            p.horizon_us = t + ms(1500);
            p.oracle.lifecycle_timing = true;
            p
        }
        4 => {
            // a spectator that stops acknowledging is cut loose at the 128-input cap, not by the timer:
            // exactly one Disconnected for its address, also when a lossy, jittery link to the other
            // player makes several frames confirm (and go out to the spectator) within one call
            let mut p = s1(property, "c12-spectator-cut-at-cap", seed, &S1Opts { max_peers: 2, force_spectators: true, frames_lo: 500, frames_hi: 1200, long_run_pct: 0, ..Default::default() });
            let n = p.nodes.len();
            let mut short_notify = false;
            for i in 0..n {
                if let NodeKind::Spectator { host, .. } = p.nodes[i].kind {
                    let at = c.range(&[30, i as u64], ms(300), p.horizon_us / 2);
                    if c.chance(&[32, i as u64], 350_000) {
                        // ... or the way back heals just as the cap is reached: what was held up
                        // arrives within a frame or two of the call that gave up on the spectator,
                        // on an endpoint that has been reported interrupted (short notify delay)
                        let per = p.nodes[host].tick.period_us;
                        let frames = 128 + c.range(&[33, i as u64], 0, 12) - 4;
                        let end = at + frames * per + c.range(&[34, i as u64], 0, per);
                        p.windows.push(Window { from: i, to: host, start_us: at, end_us: end, kinds: ALL_KINDS, action: WinAction::Drop });
                        short_notify = true;
                    } else if c.chance(&[31, i as u64], 500_000) {
                        p.nodes[i].tick.stop_us = Some(at);
                    } else {
                        // it keeps running but nothing it sends gets through any more
                        p.windows.push(Window { from: i, to: host, start_us: at, end_us: u64::MAX / 2, kinds: ALL_KINDS, action: WinAction::Drop });
                    }
                }
            }
            p.cfg.timeout_ms = 60_000;
            p.cfg.notify_ms = if short_notify { c.range(&[35], 300, 1500) } else { 20_000 };
            p.oracle.liveness = None;
            p
        }
        _ => {
            // handshake stress
            let mut p = s1(property, "c12-handshake", seed, &S1Opts { faults: false, max_peers: 3, frames_lo: 60, frames_hi: 300, long_run_pct: 0, ..Default::default() });
            p.cfg.timeout_ms = 20_000;
            p.cfg.notify_ms = 5_000;
            for (i, n) in p.nodes.iter_mut().enumerate() {
                n.tick.period_us = ms(c.range(&[11, i as u64], 1, 400));
                n.tick.jitter_us = n.tick.period_us;
                n.tick.pauses.clear();
                if c.chance(&[12, i as u64], 250_000) {
                    n.tick.poll_period_us = ms(c.range(&[13, i as u64], 1, 30));
                }
                n.drain = !c.chance(&[14, i as u64], 200_000);
            }
            for l in p.links.iter_mut() {
                // up to 1.6 s one way: a handshake round trip well above the 200 ms retry interval
                // leaves many requests outstanding whose replies all still arrive
                l.base_us = ms(*c.pick(&[15, l.from as u64, l.to as u64], &[0u64, 5, 20, 80, 150, 300, 300, 700, 1200, 1600]));
                l.jitter_us = l.base_us.min(ms(300));
                l.loss_ppm = *c.pick(&[16, l.from as u64, l.to as u64], &[0u32, 50_000, 200_000, 400_000]);
                l.dup_ppm = *c.pick(&[17, l.from as u64, l.to as u64], &[0u32, 50_000, 200_000]);
            }
            // stray replies: a nonce that was never sent, from the right address and from a stranger
            let n = p.nodes.len();
            for j in 0..c.range(&[18], 0, 6) {
                let to = c.range(&[19, j], 0, n as u64 - 1) as usize;
                let from = if c.chance(&[20, j], 200_000) { 1000 + j as u16 } else { ((to + 1 + c.range(&[21, j], 0, n as u64 - 2) as usize) % n) as u16 };
                p.injects.push(Inject {
                    at_us: c.range(&[22, j], 0, ms(2500)),
                    to,
                    from_addr: from,
                    payload: Payload::Msg { magic: *c.pick(&[23, j], &[MagicSel::Real, MagicSel::Wrong, MagicSel::Zero]), body: MBody::SyncReply { random_reply: c.u(&[24, j]) as u32 } },
                });
            }
            // a peer that was restarted while connecting: handshake requests under another magic
            // from the right address, some of them before the genuine peer's first request
            if c.chance(&[26], 300_000) {
                for j in 0..c.range(&[27], 1, 3) {
                    let to = c.range(&[28, j], 0, n as u64 - 1) as usize;
                    let from = ((to + 1 + c.range(&[29, j], 0, n as u64 - 2) as usize) % n) as u16;
                    let at = if c.chance(&[30, j], 500_000) { c.range(&[31, j], 0, ms(30)) } else { c.range(&[31, j], 0, ms(2500)) };
                    p.injects.push(Inject { at_us: at, to, from_addr: from, payload: Payload::Msg { magic: MagicSel::Wrong, body: MBody::SyncRequest { random_request: c.u(&[32, j]) as u32 } } });
                }
            }
            let slowest = p.links.iter().map(|l| l.base_us + l.jitter_us).max().unwrap_or(0);
            p.horizon_us = ms(c.range(&[25], 3000, 9000)) + 12 * slowest;
            p
        }
    }
}


// ------------------------------------------------------------------ C06

/// Host topologies of 1-3 peers with 1-2 spectators; spectators tick at 0.25x-4x the host's
/// rate, pause for up to 3 s, use every catch-up setting; loss/reordering on the host->spectator
/// link; in some two-peer runs the other player dies.
pub fn c06(property: &str, seed: u64) -> Plan {
    let c = Ch::new(seed, "c06");
    let single_host = c.chance(&[1], 200_000);
    let mut p = s1(
        property,
        "c06",
        seed,
        &S1Opts { faults: false, allow_lockstep: true, force_spectators: true, min_peers: if single_host { 1 } else { 2 }, max_peers: if single_host { 1 } else { 3 }, frames_lo: 200, frames_hi: 900, long_run_pct: 5, ..Default::default() },
    );
    let per = 1_000_000 / p.cfg.fps as u64;
    let horizon = p.horizon_us;
    let n = p.nodes.len();
    for i in 0..n {
        let NodeKind::Spectator { host, .. } = p.nodes[i].kind.clone() else { continue };
        let k = i as u64;
        let host_period = p.nodes[host].tick.period_us;
        let ratio = *c.pick(&[2, k], &[250u64, 500, 1000, 1000, 1000, 2000, 4000]);
        p.nodes[i].tick.period_us = (host_period * ratio / 1000).max(1000);
        p.nodes[i].tick.jitter_us = *c.pick(&[3, k], &[0u64, 0, per / 4, per]);
        p.nodes[i].tick.pauses.clear();
        for j in 0..c.range(&[4, k], 0, 2) {
            let at = c.range(&[5, k, j], ms(300), horizon.max(ms(400)));
            p.nodes[i].tick.pauses.push((at, at + ms(c.range(&[6, k, j], 100, 3000))));
        }
        p.nodes[i].kind = NodeKind::Spectator { host, max_frames_behind: c.range(&[7, k], 1, 59) as usize, catchup_speed: *c.pick(&[8, k], &[1usize, 1, 2, 3, 5, 10, 30, 70]) };
        for l in p.links.iter_mut() {
            if l.from == host && l.to == i {
                l.loss_ppm = *c.pick(&[9, k], &[0u32, 0, 20_000, 100_000, 200_000]);
                l.dup_ppm = *c.pick(&[10, k], &[0u32, 0, 50_000]);
                l.jitter_us = l.base_us * c.range(&[11, k], 0, 150) / 100;
            }
            if l.from == i && l.to == host {
                l.loss_ppm = *c.pick(&[12, k], &[0u32, 0, 50_000, 100_000]);
            }
        }
    }
    // a host-side player disconnect: in two-peer runs the peer that hosts no spectator may die
    let peers = p.peers();
    if peers.len() == 2 && c.chance(&[13], 400_000) {
        let hosts: Vec<usize> = p.nodes.iter().filter_map(|n| if let NodeKind::Spectator { host, .. } = n.kind { Some(host) } else { None }).collect();
        if let Some(&v) = peers.iter().find(|x| !hosts.contains(x)) {
            let at = c.range(&[14], ms(500), horizon.max(ms(600)));
            if c.chance(&[18], 400_000) {
                // ... or the host's application drops it through the API while it is alive and possibly
                // ahead of the host: the spectator must get its real inputs up to the cut-off
                let host = *peers.iter().find(|&&x| x != v).unwrap();
                let handle = match &p.nodes[v].kind {
                    NodeKind::Peer { locals } => locals[0],
                    _ => unreachable!(),
                };
                p.api.push(ApiCall { node: host, at_us: at, call: Api::Disconnect { handle } });
                p.scenario = "c06-player-dropped-by-host".into();
            } else {
                p.nodes[v].tick.stop_us = Some(at);
                p.scenario = "c06-player-dies".into();
            }
            p.cfg.timeout_ms = 2000;
            p.cfg.notify_ms = 500;
            p.horizon_us += ms(2500);
        }
    }
    // three peers: both other players go within one poll of the host - they die at the same instant
    // (one of them with its last packets lost, so that the host holds different amounts of their
    // input), or the host's application drops both in one tick. The host then has two cut-offs
    // pending before its next rollback, and the spectator must still see what the host simulates.
    if peers.len() == 3 && c.chance(&[19], 350_000) {
        let host = match p.nodes.iter().find_map(|n| if let NodeKind::Spectator { host, .. } = n.kind { Some(host) } else { None }) {
            Some(h) => h,
            None => peers[0],
        };
        let others: Vec<usize> = peers.iter().copied().filter(|&x| x != host).collect();
        let hosts_all: Vec<usize> = p.nodes.iter().filter_map(|n| if let NodeKind::Spectator { host, .. } = n.kind { Some(host) } else { None }).collect();
        if hosts_all.iter().all(|&h| h == host) {
            let at = c.range(&[20], ms(600), horizon.max(ms(700)));
            if c.chance(&[21], 400_000) {
                for &v in &others {
                    let handle = match &p.nodes[v].kind {
                        NodeKind::Peer { locals } => locals[0],
                        _ => unreachable!(),
                    };
                    p.api.push(ApiCall { node: host, at_us: at, call: Api::Disconnect { handle } });
                }
                p.scenario = "c06-both-players-dropped-by-host-in-one-tick".into();
            } else {
                for (j, &v) in others.iter().enumerate() {
                    p.nodes[v].tick.stop_us = Some(at);
                    if j == 1 {
                        let before = ms(c.range(&[22], 20, 200));
                        p.windows.push(Window { from: v, to: host, start_us: at.saturating_sub(before), end_us: at + ms(10_000), kinds: ALL_KINDS, action: WinAction::Drop });
                    }
                }
                p.scenario = "c06-both-players-die-at-once".into();
            }
            p.cfg.timeout_ms = 2000;
            p.cfg.notify_ms = 500;
            p.horizon_us += ms(2500);
        }
    }
    // with two spectators the host may cut one loose through the API; the other must not notice
    let specs: Vec<usize> = (0..p.nodes.len()).filter(|&i| matches!(p.nodes[i].kind, NodeKind::Spectator { .. })).collect();
    if specs.len() == 2 && c.chance(&[15], 300_000) {
        if let (NodeKind::Spectator { host: h0, .. }, NodeKind::Spectator { host: h1, .. }) = (&p.nodes[specs[0]].kind, &p.nodes[specs[1]].kind) {
            if h0 == h1 {
                let which = c.range(&[16], 0, 1) as usize;
                p.api.push(ApiCall { node: *h0, at_us: c.range(&[17], ms(400), p.horizon_us), call: Api::Disconnect { handle: p.cfg.num_players + which } });
                p.scenario = format!("{}+spectator-disconnected-by-api", p.scenario);
            }
        }
    }
    p.oracle.spectator_stream = true;
    p
}

// ------------------------------------------------------------------ C08

const SWEEP_CHUNK: u64 = 4096;

pub fn c08_runs(tier: &str) -> u64 {
    let (sweep, muts, live) = c08_parts(tier);
    sweep + muts + live
}

fn c08_parts(tier: &str) -> (u64, u64, u64) {
    if tier == "thorough" {
        (crate::sweep::UPTO3.div_ceil(SWEEP_CHUNK), 2000, 300_000)
    } else {
        (crate::sweep::UPTO2.div_ceil(SWEEP_CHUNK) + 64, 200, 12_000)
    }
}

fn c08_shell(property: &str, scenario: &str, seed: u64, mode: Mode) -> Plan {
    let mut p = synctest(property, seed, false, false);
    p.scenario = scenario.to_owned();
    p.mode = mode;
    p
}

fn forged_body(c: &Ch, j: u64, np: usize) -> MBody {
    let conn = |n: usize| (0..n).map(|_| MConn { disconnected: false, last_frame: -1 }).collect::<Vec<_>>();
    match c.range(&[50, j], 0, 8) {
        0 => MBody::Input(MInput { peer_connect_status: conn(np), disconnect_requested: true, start_frame: 0, ack_frame: -1, bytes: vec![] }),
        1 => MBody::InputAck { ack_frame: 1_000_000 },
        2 => MBody::ChecksumReport { checksum: c.u(&[51, j]) as u128, frame: c.range(&[52, j], 0, 300) as i32 },
        3 => MBody::QualityReport { frame_advantage: c.range(&[53, j], 0, 60) as i16 - 30, ping: c.range(&[54, j], 0, 1 << 40) as u128 },
        4 => MBody::QualityReply { pong: 0 },
        5 => MBody::SyncReply { random_reply: c.u(&[55, j]) as u32 },
        6 => MBody::SyncRequest { random_request: c.u(&[56, j]) as u32 },
        7 => MBody::KeepAlive,
        _ => {
            // a well-formed input packet with bogus inputs for the coming frames
            let frames: Vec<Vec<u8>> = (0..4).map(|f| (0..4).map(|b| c.u(&[57, j, f, b]) as u8).collect()).collect();
            MBody::Input(MInput { peer_connect_status: conn(np), disconnect_requested: false, start_frame: c.range(&[58, j], 0, 200) as i32, ack_frame: c.range(&[59, j], 0, 400) as i32 - 1, bytes: ggrs::verif::encode(&[0, 0, 0, 0], &frames) })
        }
    }
}

fn c08_live(property: &str, seed: u64, index: u64) -> Plan {
    let c = Ch::new(seed, "c08");
    let death = index % 5 == 0;
    let mut p = if death {
        let mut p = c07(property, seed);
        p.api.clear();
        p.oracle.liveness = None;
        p.scenario = "c08-live-with-death".into();
        p
    } else {
        let mut p = s1(property, "c08-live", seed, &S1Opts { faults: false, max_peers: 3, allow_lockstep: true, frames_lo: 120, frames_hi: 500, long_run_pct: 0, ..Default::default() });
        for l in p.links.iter_mut() {
            l.loss_ppm = *c.pick(&[1, l.from as u64, l.to as u64], &[0u32, 0, 20_000, 50_000]);
        }
        p
    };
    // a forged packet may legitimately cost an extra acknowledgement, which shifts the timing of
    // what follows; the twin comparison needs inputs that do not depend on how often a stalled
    // call was retried
    if matches!(p.cfg.input_mode, InputMode::PerAttempt) {
        p.cfg.input_mode = InputMode::Unique;
    }
    let n = p.nodes.len();
    let np = p.cfg.num_players;
    let n_inj = c.range(&[2], 10, 60);
    for j in 0..n_inj {
        let to = c.range(&[3, j], 0, n as u64 - 1) as usize;
        // addresses this node really talks to
        let partners: Vec<usize> = p.links.iter().filter(|l| l.to == to).map(|l| l.from).collect();
        if partners.is_empty() {
            continue;
        }
        let real_from = partners[c.range(&[4, j], 0, partners.len() as u64 - 1) as usize] as u16;
        let at = if c.chance(&[5, j], 200_000) { c.range(&[6, j], 0, ms(400)) } else { c.range(&[7, j], 0, p.horizon_us) };
        let small = crate::sweep::nth_bytes(c.range(&[8, j], 0, crate::sweep::UPTO3 - 1));
        let mut random_bytes: Vec<u8> = (0..c.range(&[9, j], 0, 12)).map(|b| c.u(&[10, j, b]) as u8).collect();
        while crate::sweep::declared_len(&random_bytes).is_some_and(|n| n > crate::alloc::LIMIT as u128) {
            random_bytes.pop();
        }
        // with a death in the run only forgeries that draw no reply at all are used (wrong magic,
        // unknown address): where the survivors cut the dead player off depends on timing, and a
        // forgery the endpoint answers (an extra acknowledgement) legitimately shifts timing
        let kind = if death { c.range(&[11, j], 6, 8) } else { c.range(&[11, j], 0, 9) };
        let my_spectators: Vec<usize> = p.nodes.iter().enumerate().filter(|(_, x)| matches!(x.kind, NodeKind::Spectator { host, .. } if host == to)).map(|(i, _)| i).collect();
        let (from_addr, payload) = match kind {
            0 => (real_from, Payload::MutateLastInput(InputMutation::StatusCount((np + 1 + c.range(&[12, j], 0, 2) as usize) % (np + 3)))),
            1 => (
                real_from,
                Payload::MutateLastInput(if c.chance(&[27, j], 500_000) {
                    InputMutation::NegativeStart(c.range(&[13, j], 1, 1000) as i32)
                } else {
                    InputMutation::NegativeStartLong { start: *c.pick(&[28, j], &[-1, -2, -2, -3, -5, i32::MIN, i32::MIN + 1]), extra: c.range(&[29, j], 0, 8) as u8 }
                }),
            ),
            2 => (real_from, Payload::MutateLastInput(InputMutation::Bytes(random_bytes))),
            3 => (real_from, Payload::MutateLastInput(InputMutation::Bytes(small))),
            4 => (
                real_from,
                Payload::MutateLastInput(match c.range(&[14, j], 0, 5) {
                    4 | 5 => InputMutation::Piggyback {
                        garbage: c.range(&[22, j], 0, 2) as u8,
                        ack_delta: *c.pick(&[23, j], &[0, 1, 3, 40, 1_000_000]),
                        disconnect_player: if c.chance(&[24, j], 500_000) { Some(c.range(&[25, j], 0, np as u64 - 1) as usize) } else { None },
                        last_frame: c.range(&[26, j], 0, 300) as i32 - 1,
                    },
                    0 => InputMutation::FlipBit(c.u(&[15, j]) as u32),
                    1 => InputMutation::Truncate(c.u(&[16, j]) as u32),
                    2 => InputMutation::DoubleSize,
                    _ => InputMutation::WrongSize,
                }),
            ),
            5 => (real_from, Payload::Raw((0..c.range(&[17, j], 0, 40)).map(|b| c.u(&[18, j, b]) as u8).collect())),
            6 => (real_from, Payload::Msg { magic: MagicSel::Wrong, body: forged_body(&c, j, np) }),
            // a spectator has no business sending inputs: a well-formed input packet from its address
            // (right magic, one player's worth of bytes per frame) must be ignored like any other
            // packet that does not belong
            9 if !my_spectators.is_empty() => {
                let frames: Vec<Vec<u8>> = (0..c.range(&[30, j], 1, 4)).map(|f| (0..4).map(|b| c.u(&[31, j, f, b]) as u8).collect()).collect();
                let conn = (0..np).map(|_| MConn { disconnected: false, last_frame: -1 }).collect::<Vec<_>>();
                (
                    my_spectators[c.range(&[32, j], 0, my_spectators.len() as u64 - 1) as usize] as u16,
                    Payload::Msg {
                        magic: MagicSel::Real,
                        body: MBody::Input(MInput { peer_connect_status: conn, disconnect_requested: false, start_frame: c.range(&[33, j], 0, 2) as i32, ack_frame: -1, bytes: ggrs::verif::encode(&[0, 0, 0, 0], &frames) }),
                    },
                )
            }
            7 => (1000 + (j as u16 % 50), Payload::Msg { magic: *c.pick(&[19, j], &[MagicSel::Real, MagicSel::Wrong, MagicSel::Zero]), body: forged_body(&c, j, np) }),
            _ => (1000 + (j as u16 % 50), Payload::Raw((0..c.range(&[20, j], 0, 40)).map(|b| c.u(&[21, j, b]) as u8).collect())),
        };
        // StatusCount must differ from the real count
        let payload = match payload {
            Payload::MutateLastInput(InputMutation::StatusCount(k)) if k == np => Payload::MutateLastInput(InputMutation::StatusCount(np + 1)),
            x => x,
        };
        p.injects.push(Inject { at_us: at, to, from_addr, payload });
    }
    // another session's handshake traffic from a known address while the handshake is still going on
    // (a peer restarted while connecting): it may cost a reply, it must not decide anything
    // (not in runs with a death: there every extra reply shifts the timing the cut-off frame depends on)
    if !death && c.chance(&[40], 300_000) {
        let peers = p.peers();
        for j in 0..c.range(&[41], 1, 3) {
            let to = peers[c.range(&[42, j], 0, peers.len() as u64 - 1) as usize];
            let others: Vec<usize> = peers.iter().copied().filter(|&x| x != to).collect();
            if others.is_empty() {
                continue;
            }
            let from = others[c.range(&[43, j], 0, others.len() as u64 - 1) as usize] as u16;
            let body = if c.chance(&[44, j], 700_000) { MBody::SyncRequest { random_request: c.u(&[45, j]) as u32 } } else { MBody::KeepAlive };
            p.injects.push(Inject { at_us: c.range(&[46, j], 0, ms(40)), to, from_addr: from, payload: Payload::Msg { magic: MagicSel::Wrong, body } });
        }
    }
    p.injects.sort_by_key(|i| i.at_us);
    p
}

pub fn c08(property: &str, tier: &str, seed: u64, index: u64) -> Plan {
    let (sweep, muts, _) = c08_parts(tier);
    let full = crate::sweep::UPTO2.div_ceil(SWEEP_CHUNK);
    if index < sweep {
        let (start, count) = if tier == "thorough" || index < full {
            let start = index * SWEEP_CHUNK;
            (start, SWEEP_CHUNK.min(if tier == "thorough" { crate::sweep::UPTO3 } else { crate::sweep::UPTO2 } - start))
        } else {
            // seeded chunks of the three-byte space
            let chunks3 = (crate::sweep::UPTO3 - crate::sweep::UPTO2) / SWEEP_CHUNK;
            (crate::sweep::UPTO2 + (mix(seed) % chunks3) * SWEEP_CHUNK, SWEEP_CHUNK)
        };
        return c08_shell(property, "c08-payload-sweep", seed, Mode::DecodeSweep { start, count });
    }
    if index < sweep + muts {
        return c08_shell(property, "c08-payload-mutations", seed, Mode::DecodeMutations { count: 5000 });
    }
    c08_live(property, seed, index)
}


// ------------------------------------------------------------------ C09

pub fn c09(property: &str, seed: u64, index: u64) -> Plan {
    let c = Ch::new(seed, "c09");
    if index % 2 == 0 {
        // false-alarm half: deterministic games, detection on, everything else as in C01's space
        let mut p = s1(property, "c09-no-false-alarm", seed, &S1Opts { desync: true, ..Default::default() });
        p.oracle.no_desync_events = true;
        return p;
    }
    // detection half: one peer's game really diverges from frame F on
    let mut p = s1(property, "c09-divergence", seed, &S1Opts { desync: true, max_peers: 3, frames_lo: 300, frames_hi: 900, long_run_pct: 0, ..Default::default() });
    p.cfg.sparse = false;
    let peers = p.peers();
    let x = peers[c.range(&[1], 0, peers.len() as u64 - 1) as usize];
    let per = 1_000_000 / p.cfg.fps as u64;
    let total_frames = p.horizon_us / per;
    let f = if c.chance(&[2], 200_000) { c.range(&[3], 0, p.cfg.desync_interval as u64) } else { c.range(&[4], 0, total_frames.saturating_sub(200).max(1)) };
    p.perturb.push(Perturb { node: x, frame: f as i32, mode: PerturbMode::Consistent });
    p.exempt_kinds = 1 << K_CHECKSUM;
    p.horizon_us += ms(3000);
    p
}


// ------------------------------------------------------------------ C10

/// Three or four peers in rollback mode; one dies; each survivor loses a different amount of
/// the dying peer's last packets; the links between survivors stay healthy.
pub fn c10(property: &str, seed: u64) -> Plan {
    let c = Ch::new(seed, "c10");
    let mut p = s1(property, "c10", seed, &S1Opts { faults: false, min_peers: 3, max_peers: 4, allow_spectators: false, frames_lo: 100, frames_hi: 300, long_run_pct: 0, ..Default::default() });
    let peers = p.peers();
    let v = peers[c.range(&[1], 0, peers.len() as u64 - 1) as usize];
    let t_kill = c.range(&[2], ms(2000), ms(5000));
    p.nodes[v].tick.stop_us = Some(t_kill);
    p.cfg.timeout_ms = *c.pick(&[3], &[2000u64, 2000, 1000, 3000]);
    p.cfg.notify_ms = 500;
    let per = 1_000_000 / p.cfg.fps as u64;
    for n in p.nodes.iter_mut() {
        // survivors tick regularly at the nominal rate
        n.tick.period_us = per;
        n.tick.jitter_us = n.tick.jitter_us.min(per / 2);
    }
    let same_cut = c.chance(&[17], 500_000);
    for &s in &peers {
        if s == v {
            continue;
        }
        // the split of the dying peer's last packets
        // in half of the runs the cut is at the same instant on every link: all survivors hold the
        // same amount (the recorded finding needs a split; everything else must hold without one)
        let back = if same_cut {
            c.range(&[5], 0, ms(150))
        } else if c.chance(&[4, s as u64], 300_000) {
            0
        } else {
            c.range(&[5, s as u64], 0, ms(150))
        };
        p.windows.push(Window { from: v, to: s, start_us: t_kill.saturating_sub(back), end_us: t_kill + ms(50), kinds: ALL_KINDS, action: WinAction::Drop });
    }
    let survivors: Vec<usize> = peers.iter().copied().filter(|&s| s != v).collect();
    // survivors may notice the death at different instants for other reasons than a split: their
    // own timeouts differ, or a short loss burst between two survivors (they stay connected: the
    // burst is far shorter than any timeout) delays the gossip
    let mut longest_timeout = p.cfg.timeout_ms;
    if c.chance(&[6], 300_000) {
        let s = survivors[c.range(&[7], 0, survivors.len() as u64 - 1) as usize];
        let t = c.range(&[8], 500, 3000);
        p.nodes[s].timeout_ms = Some(t);
        p.nodes[s].notify_ms = Some((t / 3).max(100));
        longest_timeout = longest_timeout.max(t);
    }
    // stragglers: the dying peer's last packets towards one survivor are not lost but held up in
    // the network for longer than the disconnect timeout, and arrive when that survivor has already
    // cut the peer off (its endpoint lingers for 5 s before it shuts down)
    if c.chance(&[13], 300_000) {
        let s = survivors[c.range(&[14], 0, survivors.len() as u64 - 1) as usize];
        // (held from the moment of sending, which may be up to 350 ms before the death)
        let hold = ms(p.nodes[s].timeout_ms.unwrap_or(p.cfg.timeout_ms) + c.range(&[15], 500, 2500));
        for w in p.windows.iter_mut().filter(|w| w.from == v && w.to == s) {
            w.action = WinAction::Delay(hold);
            w.start_us = w.start_us.min(t_kill.saturating_sub(ms(c.range(&[16], 20, 200))));
        }
        p.scenario = "c10+stragglers".into();
    }
    if c.chance(&[9], 400_000) && survivors.len() >= 2 {
        let a = survivors[c.range(&[10], 0, survivors.len() as u64 - 1) as usize];
        let b = survivors.iter().copied().find(|&x| x != a).unwrap();
        let shortest = survivors.iter().map(|&s| p.nodes[s].timeout_ms.unwrap_or(p.cfg.timeout_ms)).min().unwrap_or(2000);
        // the survivors must stay connected: the silence one of them sees is the burst plus the gap
        // between two packets of a stalled sender (keep-alives: 200 ms, one tick of slack) plus the
        // link's jitter, and has to stay clear of the shortest timeout
        let jitter_ms = p.links.iter().map(|l| l.jitter_us).max().unwrap_or(0) / 1000;
        let d_max = shortest.saturating_sub(200 + 50 + 2 * jitter_ms + 100);
        if d_max >= 50 {
            let d = ms(c.range(&[11], 50, 700).min(d_max));
            let at = t_kill.saturating_sub(c.range(&[12], 0, ms(100)));
            p.windows.push(Window { from: a, to: b, start_us: at, end_us: at + d, kinds: ALL_KINDS, action: WinAction::Drop });
        }
    }
    let max_lat = p.links.iter().map(|l| l.base_us + l.jitter_us).max().unwrap_or(0);
    let heal = t_kill + ms(longest_timeout) + 2 * max_lat + ms(1500);
    p.horizon_us = heal + ms(2000);
    p.oracle.liveness = Some(Liveness { heal_us: heal, deadline_us: heal + ms(2000), min_frames: 3, require_running: false, nodes: survivors, spectator_lag: false });
    p.oracle.survivor_agreement = true;
    p
}


// ------------------------------------------------------------------ C11

/// C01's space plus a seeded history of set_input_delay calls: at any tick including before the
/// first frame, several in one tick, while stalled, different delays per local player.
pub fn c11(property: &str, seed: u64, index: u64) -> Plan {
    let c = Ch::new(seed, "c11");
    let faults = index % 3 != 0;
    let mut p = s1(property, if faults { "c11" } else { "c11-faultfree" }, seed, &S1Opts { faults, max_peers: 3, allow_lockstep: true, frames_lo: 80, frames_hi: 500, long_run_pct: 3, ..Default::default() });
    let peers = p.peers();
    let n_calls = c.range(&[1], 1, 8);
    let mut t_prev = 0;
    for j in 0..n_calls {
        let node = peers[c.range(&[2, j], 0, peers.len() as u64 - 1) as usize];
        let locals = match &p.nodes[node].kind {
            NodeKind::Peer { locals } => locals.clone(),
            _ => unreachable!(),
        };
        let handle = locals[c.range(&[3, j], 0, locals.len() as u64 - 1) as usize];
        let at = match c.range(&[4, j], 0, 9) {
            0 | 1 => 0,                 // before the first frame
            2 | 3 => t_prev,            // same tick as the previous call
            _ => c.range(&[5, j], 0, p.horizon_us),
        };
        t_prev = at;
        p.api.push(ApiCall { node, at_us: at, call: Api::SetDelay { handle, delay: c.range(&[6, j], 0, 6) as usize } });
    }
    // a quiet tail: after the last delay change and the last fault every peer must still be
    // advancing (a stream that stops is a gap, and inputs stuck in a buffer show as a stall)
    let old_horizon = p.horizon_us;
    let max_lat = p.links.iter().map(|l| l.base_us + l.jitter_us).max().unwrap_or(0);
    p.random_faults_until_us = Some(old_horizon);
    for n in p.nodes.iter_mut() {
        n.tick.pauses.retain(|x| x.1 <= old_horizon);
    }
    p.windows.retain(|w| w.end_us <= old_horizon);
    let heal = old_horizon + 2 * max_lat + ms(300);
    p.horizon_us = heal + ms(3000);
    let peers_only: Vec<usize> = p.peers();
    p.oracle.liveness = Some(Liveness { heal_us: heal, deadline_us: heal + ms(3000), min_frames: 3, require_running: false, nodes: peers_only, spectator_lag: false });
    p
}


// ------------------------------------------------------------------ C18

pub fn c18(property: &str, seed: u64, index: u64) -> Plan {
    let c = Ch::new(seed, "c18");
    if index % 7 == 6 {
        // the sole survivor: every remote player is gone (death or disconnect_player) and the
        // session plays on alone for a long time; endpoints that no longer run must not be
        // buffered for
        let mut p = c07(property, seed);
        p.scenario = format!("c18-sole-survivor-{}", p.scenario);
        p.horizon_us += ms(c.range(&[40], 10_000, 60_000));
        p.oracle.liveness = None;
        p.oracle.lifecycle_timing = false;
        p.injects.clear();
        return p;
    }
    match index % 6 {
        0 => {
            // all-local session: no remote peers at all
            let mut p = s1(property, "c18-all-local", seed, &S1Opts { faults: false, allow_spectators: false, allow_lockstep: true, ..Default::default() });
            let np = c.range(&[1], 1, 4) as usize;
            p.nodes.truncate(1);
            p.nodes[0].kind = NodeKind::Peer { locals: (0..np).collect() };
            p.nodes[0].drain = c.chance(&[2], 500_000);
            p.cfg.num_players = np;
            p.links.clear();
            p.windows.clear();
            let per = 1_000_000 / p.cfg.fps as u64;
            p.horizon_us = c.range(&[3], 3000, 20_000) * per;
            p.scenario = "c18-all-local".into();
            // half of them with spectators: still no remote *player*, but endpoints to feed
            if c.chance(&[9], 500_000) {
                for k in 0..c.range(&[10], 1, 2) {
                    let id = p.nodes.len();
                    p.nodes.push(NodeSpec {
                        kind: NodeKind::Spectator { host: 0, max_frames_behind: 10, catchup_speed: 2 },
                        tick: TickSpec { start_us: 3000 * (k + 1), period_us: per, ..Default::default() },
                        wall_offset_ms: 5_000_000 + k,
                        drain: true, timeout_ms: None, notify_ms: None });
                    let lat = ms(*c.pick(&[11, k], &[0u64, 5, 30]));
                    p.links.push(LinkSpec { from: 0, to: id, base_us: lat, jitter_us: lat / 2, loss_ppm: *c.pick(&[12, k], &[0u32, 20_000]), dup_ppm: 0 });
                    p.links.push(LinkSpec { from: id, to: 0, base_us: lat, jitter_us: lat / 2, loss_ppm: 0, dup_ppm: 0 });
                }
                p.horizon_us = p.horizon_us.min(6000 * per);
                p.scenario = "c18-local-players-with-spectators".into();
            }
            p
        }
        1 => {
            // events are never drained; unequal tick rates keep wait recommendations coming
            let mut p = s1(property, "c18-never-drained", seed, &S1Opts { max_peers: 3, frames_lo: 3000, frames_hi: 9000, long_run_pct: 0, desync: c.chance(&[4], 500_000), ..Default::default() });
            for (i, n) in p.nodes.iter_mut().enumerate() {
                n.drain = false;
                if i == 0 {
                    n.tick.period_us = n.tick.period_us * 97 / 100;
                }
            }
            p
        }
        2 => {
            // a spectator goes silent: it keeps receiving but never polls again
            let mut p = s1(property, "c18-silent-spectator", seed, &S1Opts { faults: false, max_peers: 2, force_spectators: true, frames_lo: 600, frames_hi: 1500, long_run_pct: 0, ..Default::default() });
            let n = p.nodes.len();
            for i in 0..n {
                if matches!(p.nodes[i].kind, NodeKind::Spectator { .. }) {
                    p.nodes[i].tick.stop_us = Some(c.range(&[5, i as u64], ms(300), p.horizon_us / 2));
                }
            }
            p.cfg.timeout_ms = 60_000; // the spectator must go because of the 128-input cap, not the timer
            p.cfg.notify_ms = 20_000;
            p.oracle.silent_spectators_cut = true;
            p
        }
        3 => {
            let mut p = s1(property, "c18-desync-lossy", seed, &S1Opts { desync: true, max_peers: 3, frames_lo: 3000, frames_hi: 8000, long_run_pct: 0, ..Default::default() });
            let h = p.horizon_us;
            if let Some(l) = p.links.first().cloned() {
                p.windows.push(Window { from: l.from, to: l.to, start_us: h / 4, end_us: h / 2, kinds: 1 << K_CHECKSUM, action: WinAction::Drop });
            }
            p
        }
        4 => {
            // repeated one-way ack outages of up to 0.9 x timeout
            let mut p = s1(property, "c18-ack-outages", seed, &S1Opts { faults: false, max_peers: 3, frames_lo: 2000, frames_hi: 5000, long_run_pct: 0, ..Default::default() });
            p.cfg.timeout_ms = 2000;
            p.cfg.notify_ms = 500;
            let mut t = ms(1500);
            while t + ms(4000) < p.horizon_us {
                let l = p.links[c.range(&[6, t], 0, p.links.len() as u64 - 1) as usize].clone();
                let to_or_from_spec = matches!(p.nodes[l.to].kind, NodeKind::Spectator { .. }) || matches!(p.nodes[l.from].kind, NodeKind::Spectator { .. });
                let d = if to_or_from_spec { ms(c.range(&[7, t], 100, 600)) } else { ms(c.range(&[7, t], 200, 1800)) };
                p.windows.push(Window { from: l.from, to: l.to, start_us: t, end_us: t + d, kinds: (1 << K_INPUT_ACK) | (1 << K_INPUT), action: WinAction::Drop });
                t += d + ms(c.range(&[8, t], 1500, 5000));
            }
            p
        }
        _ => s1(property, "s1-long", seed, &S1Opts { frames_lo: 3000, frames_hi: 10_000, long_run_pct: 0, ..Default::default() }),
    }
}


// ------------------------------------------------------------------ C16

fn random_bcall(c: &Ch, j: u64, np_hint: usize) -> BCall {
    let addr = 1 + c.range(&[200, j], 0, 2) as u16;
    match c.range(&[201, j], 0, 17) {
        16 => BCall::Timeout(*c.pick(&[215, j], &[300u64, 1000, 2000, 5000])),
        17 => BCall::Notify(*c.pick(&[216, j], &[100u64, 500, 2500, 6000])),
        0 => BCall::NumPlayers(c.range(&[202, j], 0, 4) as usize),
        1..=3 => BCall::AddLocal(c.range(&[203, j], 0, 6) as usize),
        4..=6 => BCall::AddRemote(addr, c.range(&[204, j], 0, 6) as usize),
        7 | 8 => BCall::AddSpectator(addr, c.range(&[205, j], 0, 6) as usize),
        9 => BCall::Window(c.range(&[206, j], 0, 16) as usize),
        10 => BCall::Delay(c.range(&[207, j], 0, 16) as usize),
        11 => BCall::Fps(*c.pick(&[208, j], &[0usize, 1, 60, 60])),
        12 => BCall::Desync(*c.pick(&[209, j], &[0u32, 1, 2, 6])),
        13 => BCall::Sparse(c.chance(&[210, j], 500_000)),
        14 => BCall::CheckDistance(c.range(&[211, j], 0, 17) as usize),
        _ => {
            let _ = np_hint;
            if c.chance(&[212, j], 500_000) {
                BCall::MaxFramesBehind(*c.pick(&[213, j], &[0usize, 1, 10, 59, 60]))
            } else {
                BCall::CatchupSpeed(*c.pick(&[214, j], &[0usize, 1, 2, 70]))
            }
        }
    }
}

pub fn c16(property: &str, seed: u64, index: u64) -> Plan {
    let c = Ch::new(seed, "c16");
    if index % 4 == 3 {
        // misuse half: C01's space with misuse calls at seeded ticks; twin without them
        let mut p = s1(property, "c16-misuse", seed, &S1Opts { max_peers: 3, allow_lockstep: true, frames_lo: 80, frames_hi: 400, long_run_pct: 0, ..Default::default() });
        if matches!(p.cfg.input_mode, InputMode::PerAttempt) {
            p.cfg.input_mode = InputMode::Unique;
        }
        let peers = p.peers();
        let np = p.cfg.num_players;
        for j in 0..c.range(&[1], 2, 12) {
            let node = peers[c.range(&[2, j], 0, peers.len() as u64 - 1) as usize];
            let locals = match &p.nodes[node].kind {
                NodeKind::Peer { locals } => locals.clone(),
                _ => unreachable!(),
            };
            let not_local: Vec<usize> = (0..np + 3).filter(|h| !locals.contains(h)).collect();
            let remote_or_unknown = not_local[c.range(&[3, j], 0, not_local.len() as u64 - 1) as usize];
            let local_or_unknown = if c.chance(&[4, j], 600_000) { locals[c.range(&[5, j], 0, locals.len() as u64 - 1) as usize] } else { np + 5 + c.range(&[6, j], 0, 3) as usize };
            let call = match c.range(&[7, j], 0, 5) {
                0 => Api::AddInputWrongHandle { handle: remote_or_unknown },
                1 | 2 => Api::AdvanceMissingInput,
                3 => Api::DisconnectMisuse { handle: local_or_unknown },
                4 => Api::SetDelayMisuse { handle: remote_or_unknown, delay: c.range(&[8, j], 0, 6) as usize },
                _ => Api::NetStats { handle: local_or_unknown },
            };
            let at = if c.chance(&[9, j], 150_000) { c.range(&[10, j], 0, ms(300)) } else { c.range(&[11, j], 0, p.horizon_us) };
            p.api.push(ApiCall { node, at_us: at, call });
        }
        // "already disconnected": in two-peer runs a real disconnect_player (kept in the twin) followed
        // by a second call for the same handle, which must be rejected
        if peers.len() == 2 && c.chance(&[12], 300_000) {
            let node = peers[c.range(&[13], 0, 1) as usize];
            let other = peers.iter().copied().find(|&x| x != node).unwrap();
            let handle = match &p.nodes[other].kind {
                NodeKind::Peer { locals } => locals[0],
                _ => unreachable!(),
            };
            let t1 = c.range(&[14], ms(500), p.horizon_us.max(ms(600)));
            p.api.push(ApiCall { node, at_us: t1, call: Api::Disconnect { handle } });
            p.api.push(ApiCall { node, at_us: t1 + c.range(&[15], 0, ms(800)), call: Api::DisconnectMisuse { handle } });
            p.scenario = "c16-misuse+already-disconnected".into();
        }
        return p;
    }
    // builder half
    let mut calls: Vec<BCall> = Vec::new();
    if c.chance(&[20], 600_000) {
        // mostly valid: a coherent configuration with a few perturbations
        let np = c.range(&[21], 1, 4) as usize;
        if np != 2 || c.chance(&[22], 500_000) {
            calls.push(BCall::NumPlayers(np));
        }
        let n_remote_addrs = c.range(&[23], 0, 2);
        for h in 0..np {
            let who = c.range(&[24, h as u64], 0, n_remote_addrs);
            calls.push(if who == 0 { BCall::AddLocal(h) } else { BCall::AddRemote(who as u16, h) });
        }
        for k in 0..c.range(&[25], 0, 2) {
            calls.push(BCall::AddSpectator(3, np + k as usize));
        }
        for j in 0..c.range(&[26], 0, 4) {
            let extra = random_bcall(&c, 100 + j, np);
            let pos = c.range(&[27, j], 0, calls.len() as u64) as usize;
            calls.insert(pos, extra);
        }
        if c.chance(&[28], 200_000) && !calls.is_empty() {
            let k = c.range(&[29], 0, calls.len() as u64 - 1) as usize;
            calls.remove(k);
        }
    } else {
        for j in 0..c.range(&[30], 1, 12) {
            calls.push(random_bcall(&c, j, 2));
        }
    }
    let start = match c.range(&[31], 0, 9) {
        0..=5 => BStart::P2P,
        6 | 7 => BStart::SyncTest,
        _ => BStart::Spectator,
    };
    let mut p = synctest(property, seed, false, false);
    p.scenario = "c16-builder-sequence".into();
    p.cfg.input_mode = InputMode::Held(3);
    p.cfg.predict_default = false;
    p.mode = Mode::Builder { calls, start };
    p
}


// ------------------------------------------------------------------ C15

/// Fault-free: two peers driven by the documented main loop (poll every 1-2 ms, advance every
/// 1/fps); node 0 starts ticking `k` frames before node 1; symmetric constant latency.
pub fn c15(property: &str, seed: u64, index: u64) -> Plan {
    let c = Ch::new(seed, "c15");
    // the grid: 15 leads x 11 latencies x 3 fps, then seeded tick phases and clock skews
    let k = (index % 15) as i32 - 7;
    let lat_ms = ((index / 15) % 11) * 10;
    let fps = [30usize, 60, 120][((index / 165) % 3) as usize];
    let per = 1_000_000 / fps as u64;
    let lat_frames = (lat_ms * fps as u64).div_ceil(1000);
    // a quarter of the cells run in lockstep: there the input delay is what lets one peer run ahead
    // (by up to delay - latency in frames - 1) without stalling
    let lockstep = c.chance(&[12], 250_000);
    let mp = if lockstep { 0 } else { k.unsigned_abs() as usize + 2 * lat_frames as usize + 4 };
    let start = ms(1500);
    let (s0, s1) = if k >= 0 { (start, start + k as u64 * per) } else { (start + (-k) as u64 * per, start) };
    let phase = c.range(&[1], 0, per - 1);
    let mk = |locals: Vec<usize>, st: u64, wall: u64, poll: u64| NodeSpec {
        kind: NodeKind::Peer { locals },
        tick: TickSpec { start_us: st, period_us: per, poll_period_us: poll, ..Default::default() },
        wall_offset_ms: wall,
        drain: true, timeout_ms: None, notify_ms: None };
    let day = 86_400_000u64;
    let base = 1_700_000_000_000u64;
    let mut nodes = vec![
        mk(vec![0], s0, base + c.range(&[2], 0, 2 * day), c.range(&[3], 1000, 2000)),
        mk(vec![1], s1 + phase, base + c.range(&[4], 0, 2 * day), c.range(&[5], 1000, 2000)),
    ];
    if lockstep && k != 0 {
        // a lockstep session cannot run ahead before the other side's first inputs are there: both
        // start level, then the lagging side misses exactly |k| ticks
        nodes[0].tick.start_us = start;
        nodes[1].tick.start_us = start + phase;
        let lag = if k > 0 { 1 } else { 0 };
        let first_missed = nodes[lag].tick.start_us + 30 * per;
        // (a tick that falls into a pause happens at the pause's end, and the schedule continues from there)
        nodes[lag].tick.pauses.push((first_missed - 1, first_missed + k.unsigned_abs() as u64 * per));
    }
    let mut links = vec![
        LinkSpec { from: 0, to: 1, base_us: ms(lat_ms), jitter_us: 0, loss_ppm: 0, dup_ppm: 0 },
        LinkSpec { from: 1, to: 0, base_us: ms(lat_ms), jitter_us: 0, loss_ppm: 0, dup_ppm: 0 },
    ];
    let mut measure_from = start + ms(3000) + 8 * per;
    // a fifth of the rollback cells have a third peer that dies early: the two survivors start
    // level, cut the dead peer off, and only then does one of them fall behind by |k| frames.
    // What the survivors estimate about each other must not be disturbed by the dead endpoint.
    let third_dies = !lockstep && c.chance(&[13], 200_000);
    if third_dies {
        nodes[0].tick.start_us = start;
        nodes[1].tick.start_us = start + phase;
        nodes.push(mk(vec![2], start + c.range(&[14], 0, per - 1), base + c.range(&[15], 0, 2 * day), c.range(&[16], 1000, 2000)));
        // the dying peer stops at one instant, over links of equal constant latency: both survivors
        // hold the same amount of its input (the recorded C10 defect needs a difference)
        let death = start + ms(c.range(&[17], 400, 900));
        nodes[2].tick.stop_us = Some(death);
        for x in 0..2 {
            links.push(LinkSpec { from: x, to: 2, base_us: ms(lat_ms), jitter_us: 0, loss_ppm: 0, dup_ppm: 0 });
            links.push(LinkSpec { from: 2, to: x, base_us: ms(lat_ms), jitter_us: 0, loss_ppm: 0, dup_ppm: 0 });
        }
        let cut_off_by = death + ms(lat_ms) + ms(2100);
        if k != 0 {
            let lag = if k > 0 { 1 } else { 0 };
            let n_before = (cut_off_by + ms(400) - nodes[lag].tick.start_us) / per + 1;
            let first_missed = nodes[lag].tick.start_us + n_before * per;
            nodes[lag].tick.pauses.push((first_missed - 1, first_missed + k.unsigned_abs() as u64 * per));
        }
        measure_from = cut_off_by + ms(400) + k.unsigned_abs() as u64 * per + ms(3000) + 8 * per;
    }
    // in a third of the runs quality reports / replies get lost during the warm-up (never during the
    // measurement): the estimates must still settle once reports flow again
    let mut windows = Vec::new();
    if c.chance(&[7], 330_000) {
        for j in 0..c.range(&[8], 1, 3) {
            let (from, to) = if c.chance(&[9, j], 500_000) { (0, 1) } else { (1, 0) };
            let at = c.range(&[10, j], 0, measure_from - ms(2000));
            let d = ms(c.range(&[11, j], 50, 450));
            windows.push(Window { from, to, start_us: at, end_us: (at + d).min(measure_from - ms(1800)), kinds: (1 << K_QREPORT) | (1 << K_QREPLY), action: WinAction::Drop });
        }
    }
    Plan {
        property: property.to_owned(),
        scenario: if lockstep { "c15-constant-lead-lockstep" } else if third_dies { "c15-constant-lead-after-a-third-peer-died" } else { "c15-constant-lead" }.into(),
        seed,
        cfg: RunCfg {
            num_players: if third_dies { 3 } else { 2 },
            max_prediction: mp,
            input_delay: if lockstep { k.unsigned_abs() as usize + lat_frames as usize + 3 } else { *c.pick(&[6], &[0usize, 0, 2]) },
            sparse: false,
            desync_interval: 0,
            fps,
            timeout_ms: 2000,
            notify_ms: 500,
            predict_default: false,
            input_mode: InputMode::Held(10),
            hash_seed: mix(seed ^ 0x4a5),
            hash_per_map: false,
            rng_seed: mix(seed ^ 0x77),
            clock_bump_us: 0,
            variable_size_input: false,
            own_snapshots: false,
            shuffle_submissions: false,
            checksum_layout: 0,
        },
        nodes,
        links,
        windows,
        pkt_faults: Vec::new(),
        api: Vec::new(),
        injects: Vec::new(),
        perturb: Vec::new(),
        horizon_us: measure_from + ms(5000),
        mode: Mode::Net,
        random_faults_until_us: Some(0),
        exempt_kinds: 0,
        oracle: OracleCfg { timesync: Some(TimeSyncCheck { lead: k, lead_milli: if lockstep { k as i64 * 1000 + phase as i64 * 1000 / per as i64 } else { ((s1 + phase) as i64 - s0 as i64) * 1000 / per as i64 }, latency_us: ms(lat_ms), measure_from_us: measure_from, lead_from_counters: third_dies }), no_disconnect_events: !third_dies, ..Default::default() },
    }
}
