//! Stateless seeded choices: every decision of a run is `h(seed, domain, key...)`.
//! No sequential PRNG is shared between concerns, so removing one fault or adding a
//! spectator does not shift any other decision.

pub fn mix(mut z: u64) -> u64 {
    z = z.wrapping_add(0x9E37_79B9_7F4A_7C15);
    z = (z ^ (z >> 30)).wrapping_mul(0xBF58_476D_1CE4_E5B9);
    z = (z ^ (z >> 27)).wrapping_mul(0x94D0_49BB_1331_11EB);
    z ^ (z >> 31)
}

/// FNV-1a of a domain name, evaluated at compile time where possible.
pub const fn dom(s: &str) -> u64 {
    let b = s.as_bytes();
    let mut h: u64 = 0xcbf2_9ce4_8422_2325;
    let mut i = 0;
    while i < b.len() {
        h ^= b[i] as u64;
        h = h.wrapping_mul(0x0000_0100_0000_01b3);
        i += 1;
    }
    h
}

pub fn h(seed: u64, domain: u64, keys: &[u64]) -> u64 {
    let mut x = mix(seed ^ domain.rotate_left(17));
    for k in keys {
        x = mix(x ^ k.wrapping_mul(0xD6E8_FEB8_6659_FD93)).rotate_left(23);
    }
    mix(x)
}

/// A keyed chooser: `Ch::new(seed, "cfg")` then `.u(&[field])`.
#[derive(Clone, Copy)]
pub struct Ch {
    seed: u64,
    domain: u64,
}

impl Ch {
    pub fn new(seed: u64, domain: &str) -> Self {
        Ch { seed, domain: dom(domain) }
    }
    pub fn u(&self, keys: &[u64]) -> u64 {
        h(self.seed, self.domain, keys)
    }
    /// uniform in lo..=hi
    pub fn range(&self, keys: &[u64], lo: u64, hi: u64) -> u64 {
        debug_assert!(hi >= lo);
        lo + self.u(keys) % (hi - lo + 1)
    }
    /// true with probability ppm / 1_000_000
    pub fn chance(&self, keys: &[u64], ppm: u64) -> bool {
        ppm > 0 && self.u(keys) % 1_000_000 < ppm
    }
    pub fn pick<'a, T>(&self, keys: &[u64], xs: &'a [T]) -> &'a T {
        &xs[(self.u(keys) % xs.len() as u64) as usize]
    }
}

/// Order-sensitive running hash used for trace and schedule fingerprints.
#[derive(Clone, Copy, Debug, Default)]
pub struct Roll(pub u64);
impl Roll {
    pub fn add(&mut self, v: u64) {
        self.0 = mix(self.0 ^ v.wrapping_mul(0x9E37_79B9_7F4A_7C15)).rotate_left(11);
    }
    pub fn add_all(&mut self, vs: &[u64]) {
        for v in vs {
            self.add(*v);
        }
    }
}
