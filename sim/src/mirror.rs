//! Mirror of `ggrs::Message` with the same serde shape. `Message` has private fields but
//! public `Serialize`/`Deserialize`, so the simulator converts through bincode bytes in both
//! directions: classification of real packets and forging of malformed ones need no hook.

use serde::{Deserialize, Serialize};

#[derive(Serialize, Deserialize, Clone, Copy, Debug, PartialEq, Eq)]
pub struct MConn {
    pub disconnected: bool,
    pub last_frame: i32,
}

#[derive(Serialize, Deserialize, Clone, Debug, PartialEq, Eq)]
pub struct MInput {
    pub peer_connect_status: Vec<MConn>,
    pub disconnect_requested: bool,
    pub start_frame: i32,
    pub ack_frame: i32,
    pub bytes: Vec<u8>,
}

#[derive(Serialize, Deserialize, Clone, Debug, PartialEq, Eq)]
pub enum MBody {
    SyncRequest { random_request: u32 },
    SyncReply { random_reply: u32 },
    Input(MInput),
    InputAck { ack_frame: i32 },
    QualityReport { frame_advantage: i16, ping: u128 },
    QualityReply { pong: u128 },
    ChecksumReport { checksum: u128, frame: i32 },
    KeepAlive,
}

#[derive(Serialize, Deserialize, Clone, Debug, PartialEq, Eq)]
pub struct MMsg {
    pub magic: u16,
    pub body: MBody,
}

/// Packet kinds as small integers (bit index in kind masks).
pub const K_SYNC_REQ: u8 = 0;
pub const K_SYNC_REP: u8 = 1;
pub const K_INPUT: u8 = 2;
pub const K_INPUT_ACK: u8 = 3;
pub const K_QREPORT: u8 = 4;
pub const K_QREPLY: u8 = 5;
pub const K_CHECKSUM: u8 = 6;
pub const K_KEEPALIVE: u8 = 7;
pub const K_UNKNOWN: u8 = 8;
pub const KIND_NAMES: [&str; 9] = [
    "sync_request",
    "sync_reply",
    "input",
    "input_ack",
    "quality_report",
    "quality_reply",
    "checksum_report",
    "keep_alive",
    "undecodable",
];
pub const ALL_KINDS: u16 = 0x1ff;

impl MMsg {
    pub fn kind(&self) -> u8 {
        match self.body {
            MBody::SyncRequest { .. } => K_SYNC_REQ,
            MBody::SyncReply { .. } => K_SYNC_REP,
            MBody::Input(_) => K_INPUT,
            MBody::InputAck { .. } => K_INPUT_ACK,
            MBody::QualityReport { .. } => K_QREPORT,
            MBody::QualityReply { .. } => K_QREPLY,
            MBody::ChecksumReport { .. } => K_CHECKSUM,
            MBody::KeepAlive => K_KEEPALIVE,
        }
    }
    pub fn to_bytes(&self) -> Vec<u8> {
        bincode::serialize(self).expect("mirror serialises")
    }
    pub fn from_bytes(b: &[u8]) -> Option<MMsg> {
        bincode::deserialize(b).ok()
    }
}

pub fn msg_to_bytes(m: &ggrs::Message) -> Vec<u8> {
    bincode::serialize(m).expect("message serialises")
}
pub fn bytes_to_msg(b: &[u8]) -> Option<ggrs::Message> {
    bincode::deserialize(b).ok()
}

#[cfg(test)]
mod tests {
    use super::*;
    #[test]
    fn mirror_round_trips_through_real_message() {
        let m = MMsg {
            magic: 77,
            body: MBody::Input(MInput {
                peer_connect_status: vec![MConn { disconnected: true, last_frame: 5 }],
                disconnect_requested: false,
                start_frame: 3,
                ack_frame: -1,
                bytes: vec![1, 2, 3],
            }),
        };
        let real = bytes_to_msg(&m.to_bytes()).unwrap();
        assert_eq!(MMsg::from_bytes(&msg_to_bytes(&real)).unwrap(), m);
        for b in [
            MBody::SyncRequest { random_request: 9 },
            MBody::SyncReply { random_reply: 9 },
            MBody::InputAck { ack_frame: 4 },
            MBody::QualityReport { frame_advantage: -3, ping: 1 << 70 },
            MBody::QualityReply { pong: 12 },
            MBody::ChecksumReport { checksum: 99, frame: 8 },
            MBody::KeepAlive,
        ] {
            let m = MMsg { magic: 1, body: b };
            let real = bytes_to_msg(&m.to_bytes()).unwrap();
            assert_eq!(MMsg::from_bytes(&msg_to_bytes(&real)).unwrap(), m);
        }
    }
}
