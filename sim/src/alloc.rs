//! Counting allocator: records the largest single allocation request made on the current
//! thread since the last reset, so that "handling a packet never allocates unboundedly" can be
//! checked without letting a 2^40-byte request abort the process unnoticed.

use std::alloc::{GlobalAlloc, Layout, System};
use std::cell::Cell;

thread_local! {
    static MAX_REQ: Cell<usize> = const { Cell::new(0) };
    static LIVE: Cell<isize> = const { Cell::new(0) };
}

pub struct Counting;

/// Requests above this are refused (null), which aborts the process: only ever reached inside
/// the child process of a decode probe.
pub const REFUSE_ABOVE: usize = 1 << 30;
/// A legitimate input packet decodes to < 8.5 MB even at the 129-input, 65 535-byte extreme.
pub const LIMIT: usize = 16 << 20;

unsafe impl GlobalAlloc for Counting {
    unsafe fn alloc(&self, l: Layout) -> *mut u8 {
        note(l.size());
        if l.size() > REFUSE_ABOVE {
            return std::ptr::null_mut();
        }
        System.alloc(l)
    }
    unsafe fn alloc_zeroed(&self, l: Layout) -> *mut u8 {
        note(l.size());
        if l.size() > REFUSE_ABOVE {
            return std::ptr::null_mut();
        }
        System.alloc_zeroed(l)
    }
    unsafe fn realloc(&self, p: *mut u8, l: Layout, new: usize) -> *mut u8 {
        note(new);
        if new > REFUSE_ABOVE {
            return std::ptr::null_mut();
        }
        let _ = LIVE.try_with(|c| c.set(c.get() + new as isize - l.size() as isize));
        System.realloc(p, l, new)
    }
    unsafe fn dealloc(&self, p: *mut u8, l: Layout) {
        let _ = LIVE.try_with(|c| c.set(c.get() - l.size() as isize));
        System.dealloc(p, l)
    }
}

fn note(size: usize) {
    let _ = MAX_REQ.try_with(|c| {
        if size > c.get() {
            c.set(size);
        }
    });
    let _ = LIVE.try_with(|c| c.set(c.get() + size as isize));
}

pub fn reset_max() {
    MAX_REQ.with(|c| c.set(0));
}
pub fn max_request() -> usize {
    MAX_REQ.with(|c| c.get())
}
/// Net bytes allocated minus freed on this thread (can be negative when memory allocated on
/// another thread is freed here).
pub fn live_bytes() -> isize {
    LIVE.with(|c| c.get())
}
