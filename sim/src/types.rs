//! Shared small types: the Config instantiations, the saved game state, violations.

use ggrs::{Config, PredictDefault, PredictRepeatLast};
use serde::{Deserialize, Serialize};

pub type Addr = u16;

/// What the harness game stores in a `GameStateCell`.
#[derive(Clone, Debug, PartialEq, Eq)]
pub struct GState {
    pub frame: i32,
    pub state: u64,
    /// serial number of the save that wrote this cell
    pub serial: u64,
}

pub trait SimCfg: Config<State = GState, Address = Addr> {
    const PREDICT_DEFAULT: bool;
    /// the harness works with u32 values; the session's input type is a view of them
    fn enc(v: u32) -> Self::Input;
    fn dec(i: Self::Input) -> u32;
}

/// An input whose serialised size depends on its value (4, 5 or 8 bytes with bincode).
#[derive(Copy, Clone, PartialEq, Eq, Debug, Default, Serialize, Deserialize)]
pub enum VarInput {
    #[default]
    None,
    Small(u8),
    Big(u32),
}
fn var_enc(v: u32) -> VarInput {
    match v {
        0 => VarInput::None,
        1..=255 => VarInput::Small(v as u8),
        _ => VarInput::Big(v),
    }
}
fn var_dec(i: VarInput) -> u32 {
    match i {
        VarInput::None => 0,
        VarInput::Small(b) => b as u32,
        VarInput::Big(v) => v,
    }
}

#[derive(Debug)]
pub struct CfgVarRepeat;
impl Config for CfgVarRepeat {
    type Input = VarInput;
    type InputPredictor = PredictRepeatLast;
    type State = GState;
    type Address = Addr;
}
impl SimCfg for CfgVarRepeat {
    const PREDICT_DEFAULT: bool = false;
    fn enc(v: u32) -> VarInput {
        var_enc(v)
    }
    fn dec(i: VarInput) -> u32 {
        var_dec(i)
    }
}

#[derive(Debug)]
pub struct CfgVarDefault;
impl Config for CfgVarDefault {
    type Input = VarInput;
    type InputPredictor = PredictDefault;
    type State = GState;
    type Address = Addr;
}
impl SimCfg for CfgVarDefault {
    const PREDICT_DEFAULT: bool = true;
    fn enc(v: u32) -> VarInput {
        var_enc(v)
    }
    fn dec(i: VarInput) -> u32 {
        var_dec(i)
    }
}

#[derive(Debug)]
pub struct CfgRepeat;
impl Config for CfgRepeat {
    type Input = u32;
    type InputPredictor = PredictRepeatLast;
    type State = GState;
    type Address = Addr;
}
impl SimCfg for CfgRepeat {
    const PREDICT_DEFAULT: bool = false;
    fn enc(v: u32) -> u32 {
        v
    }
    fn dec(i: u32) -> u32 {
        i
    }
}

#[derive(Debug)]
pub struct CfgDefault;
impl Config for CfgDefault {
    type Input = u32;
    type InputPredictor = PredictDefault;
    type State = GState;
    type Address = Addr;
}
impl SimCfg for CfgDefault {
    const PREDICT_DEFAULT: bool = true;
    fn enc(v: u32) -> u32 {
        v
    }
    fn dec(i: u32) -> u32 {
        i
    }
}

/// Input status as the harness records it.
#[derive(Clone, Copy, Debug, PartialEq, Eq, Serialize, Deserialize)]
pub enum St {
    Confirmed,
    Predicted,
    Disconnected,
}
impl From<ggrs::InputStatus> for St {
    fn from(s: ggrs::InputStatus) -> St {
        match s {
            ggrs::InputStatus::Confirmed => St::Confirmed,
            ggrs::InputStatus::Predicted => St::Predicted,
            ggrs::InputStatus::Disconnected => St::Disconnected,
        }
    }
}

#[derive(Clone, Debug, Serialize, Deserialize, PartialEq)]
pub struct Violation {
    /// oracle class, e.g. "c01.wrong_input" or "panic@src/sync_layer.rs:238"
    pub class: String,
    pub text: String,
    pub t_us: u64,
    pub node: usize,
    pub frame: i32,
}

pub const NULL_FRAME: i32 = -1;

pub fn step_state(state: u64, frame: i32, inputs: &[(u32, bool)]) -> u64 {
    // Predicted vs Confirmed is deliberately not hashed (two peers may differ there);
    // the Disconnected flag is (the docs invite games to branch on it).
    let mut h = crate::rng::mix(state ^ (frame as u64).wrapping_mul(0x9E37_79B9_7F4A_7C15));
    for (i, (v, disc)) in inputs.iter().enumerate() {
        h = crate::rng::mix(h ^ ((*v as u64) << 8) ^ ((*disc as u64) << 7) ^ i as u64);
    }
    h
}

pub const INIT_STATE: u64 = 0x5EED_0000_0000_0001;
