//! A `Plan` is everything a seed decided, made explicit: configuration, tick schedules,
//! link models, fault windows, per-packet faults, API calls, injected packets, game
//! perturbations. Executing a plan is a pure function of the plan and the code under test;
//! a replay file is a plan plus the violation it produced.

use crate::mirror::MBody;
use serde::{Deserialize, Serialize};

#[derive(Serialize, Deserialize, Clone, Debug, PartialEq)]
pub struct Plan {
    pub property: String,
    pub scenario: String,
    /// keys every residual stateless choice (jitter, random loss, inputs)
    pub seed: u64,
    pub cfg: RunCfg,
    pub nodes: Vec<NodeSpec>,
    pub links: Vec<LinkSpec>,
    #[serde(default)]
    pub windows: Vec<Window>,
    #[serde(default)]
    pub pkt_faults: Vec<PktFault>,
    #[serde(default)]
    pub api: Vec<ApiCall>,
    #[serde(default)]
    pub injects: Vec<Inject>,
    #[serde(default)]
    pub perturb: Vec<Perturb>,
    pub horizon_us: u64,
    /// Net (default): peers and spectators over the simulated network. SyncTest: one
    /// SyncTestSession, no network, no clock.
    #[serde(default)]
    pub mode: Mode,
    /// random per-packet loss/duplication only happens before this instant
    #[serde(default)]
    pub random_faults_until_us: Option<u64>,
    /// packet kinds (bit mask over mirror::K_*) that no random loss and no window touches
    #[serde(default)]
    pub exempt_kinds: u16,
    #[serde(default)]
    pub oracle: OracleCfg,
}

#[derive(Serialize, Deserialize, Clone, Debug, PartialEq, Default)]
pub enum Mode {
    #[default]
    Net,
    SyncTest {
        check_distance: usize,
        frames: u32,
        /// the configuration is invalid by the documentation: the builder must return InvalidRequest
        #[serde(default)]
        expect_reject: bool,
    },
    /// C08 (b): decode byte strings number start..start+count (enumeration order: length, then value)
    DecodeSweep {
        start: u64,
        count: u64,
    },
    /// C08 (b): decode `count` seeded mutations of real payloads
    DecodeMutations {
        count: u64,
    },
    /// C16: a sequence of builder calls checked against the reference validity predicate; an
    /// accepted configuration is then run
    Builder {
        calls: Vec<BCall>,
        start: BStart,
    },
}

#[derive(Serialize, Deserialize, Clone, Debug, PartialEq)]
pub struct RunCfg {
    pub num_players: usize,
    pub max_prediction: usize,
    pub input_delay: usize,
    pub sparse: bool,
    /// 0 = desync detection off
    pub desync_interval: u32,
    pub fps: usize,
    pub timeout_ms: u64,
    pub notify_ms: u64,
    pub predict_default: bool,
    pub input_mode: InputMode,
    pub hash_seed: u64,
    #[serde(default)]
    pub hash_per_map: bool,
    pub rng_seed: u64,
    #[serde(default)]
    pub clock_bump_us: u64,
    /// the session's input type is an enum whose serialised size depends on the value (4/5/8 bytes)
    #[serde(default)]
    pub variable_size_input: bool,
    /// the game keeps its own snapshots: it saves `None` data (with a checksum) into the cells
    /// and restores from the frame number of the load request, as bevy_ggrs-style games do
    #[serde(default)]
    pub own_snapshots: bool,
    /// local inputs are submitted in a seeded order instead of ascending handles, and now and then
    /// a throw-away value is submitted first (documented: the later submission overwrites it)
    #[serde(default)]
    pub shuffle_submissions: bool,
    /// how the game packs its checksum into the u128: 0 = the 64-bit state hash in the low half,
    /// 1 = the state hash in the HIGH half and only the frame number in the low half, 2 = both halves
    #[serde(default)]
    pub checksum_layout: u8,
}

#[derive(Serialize, Deserialize, Clone, Copy, Debug, PartialEq, Eq)]
pub enum InputMode {
    /// a different value every frame, encoding player and frame: every prediction is wrong
    Unique,
    /// value held for `n` frames: most predictions are right
    Held(u32),
    /// the default input except one frame in `n`
    MostlyDefault(u32),
    /// one constant per player
    Constant,
    /// value also depends on the submission attempt (resubmission while stalled differs)
    PerAttempt,
}

#[derive(Serialize, Deserialize, Clone, Debug, PartialEq)]
pub struct NodeSpec {
    pub kind: NodeKind,
    pub tick: TickSpec,
    /// this node's wall clock = offset + virtual time
    pub wall_offset_ms: u64,
    /// drain `events()` every tick (false: never)
    pub drain: bool,
    /// this node's own disconnect timeout / notify delay (None: the run's)
    #[serde(default)]
    pub timeout_ms: Option<u64>,
    #[serde(default)]
    pub notify_ms: Option<u64>,
}

#[derive(Serialize, Deserialize, Clone, Debug, PartialEq)]
pub enum NodeKind {
    Peer {
        /// player handles that are local on this node
        locals: Vec<usize>,
    },
    Spectator {
        host: usize,
        max_frames_behind: usize,
        catchup_speed: usize,
    },
}

#[derive(Serialize, Deserialize, Clone, Debug, PartialEq, Default)]
pub struct TickSpec {
    pub start_us: u64,
    pub period_us: u64,
    /// each tick is late by 0..=jitter_us (stateless hash of seed, node, tick number)
    #[serde(default)]
    pub jitter_us: u64,
    /// the node does nothing in [from, to)
    #[serde(default)]
    pub pauses: Vec<(u64, u64)>,
    /// the node stops for good (killed / silent)
    #[serde(default)]
    pub stop_us: Option<u64>,
    /// chance (ppm) that a tick calls poll_remote_clients() before add_local_input
    #[serde(default)]
    pub prepoll_ppm: u32,
    /// additional poll-only calls every poll_period_us (0 = none): the documented main loop
    #[serde(default)]
    pub poll_period_us: u64,
    /// use advance_frame_with_wait() instead of advance_frame()
    #[serde(default)]
    pub use_wait: bool,
    /// with use_wait: call advance_frame_with_wait_timeout(this) instead of advance_frame_with_wait()
    #[serde(default)]
    pub wait_timeout_us: Option<u64>,
    /// the node only polls, never advances (C12 quiet pair)
    #[serde(default)]
    pub poll_only: bool,
}

#[derive(Serialize, Deserialize, Clone, Debug, PartialEq)]
pub struct LinkSpec {
    pub from: usize,
    pub to: usize,
    pub base_us: u64,
    pub jitter_us: u64,
    pub loss_ppm: u32,
    pub dup_ppm: u32,
}

#[derive(Serialize, Deserialize, Clone, Debug, PartialEq)]
pub enum WinAction {
    Drop,
    Delay(u64),
}

#[derive(Serialize, Deserialize, Clone, Debug, PartialEq)]
pub struct Window {
    pub from: usize,
    pub to: usize,
    pub start_us: u64,
    pub end_us: u64,
    /// bit mask over mirror::K_* (ALL_KINDS = every packet)
    pub kinds: u16,
    pub action: WinAction,
}

#[derive(Serialize, Deserialize, Clone, Debug, PartialEq)]
pub enum PktAction {
    Drop,
    Dup(u64),
    Delay(u64),
}

#[derive(Serialize, Deserialize, Clone, Debug, PartialEq)]
pub struct PktFault {
    pub from: usize,
    pub to: usize,
    /// index of the packet on the directed link, counted from 0 at send time
    pub n: u64,
    pub action: PktAction,
}

#[derive(Serialize, Deserialize, Clone, Debug, PartialEq)]
pub enum Api {
    SetDelay { handle: usize, delay: usize },
    Disconnect { handle: usize },
    /// misuse calls; the documented error is expected and nothing else may change
    AddInputWrongHandle { handle: usize },
    /// advance_frame() with a local input missing (polls the network as a side effect)
    AdvanceMissingInput,
    NetStats { handle: usize },
    /// disconnect_player for a local or unknown handle
    DisconnectMisuse { handle: usize },
    /// set_input_delay for a remote, spectator or unknown handle
    SetDelayMisuse { handle: usize, delay: usize },
    /// plain poll_remote_clients(): what the twin of AdvanceMissingInput does at that instant
    Poll,
}

/// One call on a SessionBuilder (C16, builder half).
#[derive(Serialize, Deserialize, Clone, Debug, PartialEq)]
pub enum BCall {
    NumPlayers(usize),
    AddLocal(usize),
    AddRemote(u16, usize),
    AddSpectator(u16, usize),
    Window(usize),
    Delay(usize),
    Fps(usize),
    /// 0 = Off, n = On { interval: n - 1 }
    Desync(u32),
    Sparse(bool),
    CheckDistance(usize),
    MaxFramesBehind(usize),
    CatchupSpeed(usize),
    /// with_disconnect_timeout, in ms (any value is documented as acceptable)
    Timeout(u64),
    /// with_disconnect_notify_delay, in ms (may exceed the timeout: the setters are independent)
    Notify(u64),
}

#[derive(Serialize, Deserialize, Clone, Debug, PartialEq)]
pub enum BStart {
    P2P,
    Spectator,
    SyncTest,
}

#[derive(Serialize, Deserialize, Clone, Debug, PartialEq)]
pub struct ApiCall {
    pub node: usize,
    /// executed in the first tick of that node at or after this instant
    pub at_us: u64,
    pub call: Api,
}

#[derive(Serialize, Deserialize, Clone, Copy, Debug, PartialEq, Eq)]
pub enum MagicSel {
    /// the magic the claimed sender really uses towards this node (learned from real traffic)
    Real,
    Wrong,
    Zero,
}

#[derive(Serialize, Deserialize, Clone, Debug, PartialEq)]
pub enum Payload {
    /// a message built through the mirror
    Msg { magic: MagicSel, body: MBody },
    /// a raw datagram (may not even deserialise)
    Raw(Vec<u8>),
    /// take the newest real Input packet seen on the link from->to and replace its payload
    /// bytes / mutate its fields
    MutateLastInput(InputMutation),
}

#[derive(Serialize, Deserialize, Clone, Debug, PartialEq)]
pub enum InputMutation {
    Bytes(Vec<u8>),
    FlipBit(u32),
    Truncate(u32),
    StatusCount(usize),
    NegativeStart(i32),
    /// re-encode with one frame one byte longer
    WrongSize,
    /// re-encode with the last frame followed by a second copy of garbage of the same length:
    /// twice the right size, so it still divides evenly between the players
    DoubleSize,
    /// an invalid payload (`garbage`: 0 = frames of the wrong size, 1 = truncated encoding,
    /// 2 = not an encoding at all) that carries an acknowledgement `ack_delta` frames beyond the
    /// genuine one and, optionally, a connection status declaring a player disconnected: a
    /// dropped packet must not be half applied
    /// a negative start frame followed by `extra` more well-formed frames than the genuine packet
    /// had, so that the numbering can cross frame 0
    NegativeStartLong { start: i32, extra: u8 },
    Piggyback { garbage: u8, ack_delta: i32, disconnect_player: Option<usize>, last_frame: i32 },
}

#[derive(Serialize, Deserialize, Clone, Debug, PartialEq)]
pub struct Inject {
    pub at_us: u64,
    pub to: usize,
    /// the address the datagram claims to come from (node index, or >= 1000 for a stranger)
    pub from_addr: u16,
    pub payload: Payload,
}

#[derive(Serialize, Deserialize, Clone, Debug, PartialEq)]
pub enum PerturbMode {
    /// the game of this node computes a different (but self-consistent) state from this frame on
    Consistent,
    /// every simulation of this frame mixes a fresh counter into the state
    Nondet,
    /// only the k-th simulation of this frame (1 = the first, live one) computes a different result
    NondetOnce(u32),
}

#[derive(Serialize, Deserialize, Clone, Debug, PartialEq)]
pub struct Perturb {
    pub node: usize,
    pub frame: i32,
    pub mode: PerturbMode,
}

/// Which oracles are armed and their parameters. The request-list automaton and the panic
/// trap are always on.
#[derive(Serialize, Deserialize, Clone, Debug, PartialEq)]
pub struct OracleCfg {
    #[serde(default = "yes")]
    pub timeline: bool,
    #[serde(default = "yes")]
    pub status: bool,
    #[serde(default = "yes")]
    pub bounds: bool,
    /// bounded liveness after the last fault: (heal instant, deadline, frames to advance)
    #[serde(default)]
    pub liveness: Option<Liveness>,
    #[serde(default)]
    pub no_disconnect_events: bool,
    #[serde(default = "yes")]
    pub event_grammar: bool,
    #[serde(default)]
    pub no_desync_events: bool,
    #[serde(default = "yes")]
    pub buffers: bool,
    #[serde(default)]
    pub spectator_stream: bool,
    /// handshake accounting against the reference model (which replies match)
    #[serde(default = "yes")]
    pub lifecycle: bool,
    /// C10: all peers that are alive at the end must have used identical inputs and statuses for
    /// the players of a stopped node on every frame, and identical states
    #[serde(default)]
    pub survivor_agreement: bool,
    /// C18: a spectator that stopped polling must have been cut loose by its host once more
    /// than 128 inputs are unacknowledged, and the host must keep running
    #[serde(default)]
    pub silent_spectators_cut: bool,
    /// C15: node 0 runs `lead` frames ahead of node 1 over a symmetric link
    #[serde(default)]
    pub timesync: Option<TimeSyncCheck>,
    /// two healthy sessions that merely poll must never see NetworkInterrupted
    #[serde(default)]
    pub no_interrupted_events: bool,
    /// also compare NetworkInterrupted / NetworkResumed / Disconnected with the timer model, poll by poll
    #[serde(default)]
    pub lifecycle_timing: bool,
}

fn yes() -> bool {
    true
}

impl Default for OracleCfg {
    fn default() -> Self {
        OracleCfg {
            timeline: true,
            status: true,
            bounds: true,
            liveness: None,
            no_disconnect_events: false,
            event_grammar: true,
            no_desync_events: false,
            buffers: true,
            spectator_stream: true,
            lifecycle: true,
            survivor_agreement: false,
            timesync: None,
            silent_spectators_cut: false,
            no_interrupted_events: false,
            lifecycle_timing: false,
        }
    }
}

#[derive(Serialize, Deserialize, Clone, Debug, PartialEq)]
pub struct TimeSyncCheck {
    /// nominal lead of node 0 over node 1 in frames
    pub lead: i32,
    /// exact lead in 1/1000 frames (the tick phases of the two nodes differ by a fraction of a frame)
    #[serde(default)]
    pub lead_milli: i64,
    pub latency_us: u64,
    pub measure_from_us: u64,
    /// the expected lead is read off the two frame counters at every tick (lockstep cells always)
    #[serde(default)]
    pub lead_from_counters: bool,
}

#[derive(Serialize, Deserialize, Clone, Debug, PartialEq)]
/// After `heal_us` no fault is injected any more. Between the midpoint of [heal, deadline] and
/// the deadline every regularly ticked session must advance at least `min_frames` frames: a
/// wedge is permanent and advances none, while a session that is merely slow (lockstep over a
/// long link) is not flagged.
pub struct Liveness {
    pub heal_us: u64,
    pub deadline_us: u64,
    pub min_frames: i32,
    /// sessions that never got Running are a violation (false: they are skipped)
    #[serde(default = "yes")]
    pub require_running: bool,
    /// nodes the demand applies to (empty: all nodes that are alive)
    #[serde(default)]
    pub nodes: Vec<usize>,
    /// also demand that spectators with catchup_speed >= 2 are back within max_frames_behind
    #[serde(default = "yes")]
    pub spectator_lag: bool,
}

impl Plan {
    pub fn link(&self, from: usize, to: usize) -> Option<&LinkSpec> {
        self.links.iter().find(|l| l.from == from && l.to == to)
    }
    pub fn num_spectators_of(&self, host: usize) -> Vec<usize> {
        self.nodes
            .iter()
            .enumerate()
            .filter_map(|(i, n)| match n.kind {
                NodeKind::Spectator { host: h, .. } if h == host => Some(i),
                _ => None,
            })
            .collect()
    }
    pub fn owner_of(&self, handle: usize) -> Option<usize> {
        self.nodes.iter().position(|n| match &n.kind {
            NodeKind::Peer { locals } => locals.contains(&handle),
            _ => false,
        })
    }
    pub fn peers(&self) -> Vec<usize> {
        self.nodes
            .iter()
            .enumerate()
            .filter_map(|(i, n)| matches!(n.kind, NodeKind::Peer { .. }).then_some(i))
            .collect()
    }
}
