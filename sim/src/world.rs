//! Discrete-event execution of a `Plan` against real GGRS sessions, with the per-step oracles.

use crate::game::*;
use crate::mirror::*;
use crate::net::*;
use crate::plan::*;
use crate::rng::{dom, h, mix, Roll};
use crate::truth::DelayModel;
use crate::types::*;
use ggrs::{
    DesyncDetection, GgrsError, GgrsEvent, P2PSession, PlayerType, SessionBuilder, SessionState, SpectatorSession,
};
use std::cell::RefCell;
use std::cmp::Reverse;
use std::collections::{BTreeMap, BinaryHeap};
use std::panic::{catch_unwind, AssertUnwindSafe};
use std::rc::Rc;
use std::time::Duration;

// ------------------------------------------------------------------ panics

thread_local! {
    static LAST_PANIC: RefCell<Option<(String, String)>> = const { RefCell::new(None) };
    static QUIET: std::cell::Cell<bool> = const { std::cell::Cell::new(false) };
}

static HOOK: std::sync::Once = std::sync::Once::new();

/// Call at the start of every thread that runs simulations.
pub fn install_thread() {
    HOOK.call_once(install_panic_hook);
    ggrs::verif::set_now_micros(0);
}

pub fn install_panic_hook() {
    let default = std::panic::take_hook();
    std::panic::set_hook(Box::new(move |info| {
        let loc = info.location().map(|l| format!("{}:{}", l.file(), l.line())).unwrap_or_default();
        let msg = if let Some(s) = info.payload().downcast_ref::<&str>() {
            (*s).to_owned()
        } else if let Some(s) = info.payload().downcast_ref::<String>() {
            s.clone()
        } else {
            "<non-string panic>".to_owned()
        };
        LAST_PANIC.with(|p| *p.borrow_mut() = Some((msg, loc)));
        if !QUIET.with(|q| q.get()) {
            default(info);
        }
    }));
}

pub fn guarded<R>(f: impl FnOnce() -> R) -> Result<R, (String, String)> {
    QUIET.with(|q| q.set(true));
    let r = catch_unwind(AssertUnwindSafe(f));
    QUIET.with(|q| q.set(false));
    r.map_err(|_| LAST_PANIC.with(|p| p.borrow_mut().take()).unwrap_or_default())
}

/// Violation class of a panic: file (no line number, so that unrelated edits do not rename it)
/// plus the message with every number replaced by '#'.
pub fn panic_class(p: &(String, String)) -> String {
    let loc = short_loc(&p.1);
    let file = loc.rsplit_once(':').map(|x| x.0).unwrap_or(&loc);
    let mut msg = String::new();
    let mut in_num = false;
    for ch in p.0.chars() {
        if ch.is_ascii_digit() {
            if !in_num {
                msg.push('#');
            }
            in_num = true;
        } else {
            in_num = false;
            msg.push(if ch == '\n' { ' ' } else { ch });
        }
        if msg.len() >= 64 {
            break;
        }
    }
    format!("panic@{file}:{msg}")
}

pub fn short_loc(loc: &str) -> String {
    // keep "src/.../file.rs:line" for ggrs, crate name for dependencies
    if let Some(i) = loc.find("/repo/") {
        return loc[i + 6..].to_owned();
    }
    if let Some(i) = loc.rfind("/src/") {
        let head = &loc[..i];
        let krate = head.rsplit('/').next().unwrap_or("");
        return format!("{krate}{}", &loc[i..]);
    }
    loc.to_owned()
}

// ------------------------------------------------------------------ records

#[derive(Clone, Debug, PartialEq, Eq)]
pub enum Ev {
    Synchronizing { addr: Addr, total: u32, count: u32 },
    Synchronized { addr: Addr },
    Disconnected { addr: Addr },
    Interrupted { addr: Addr, timeout_ms: u128 },
    Resumed { addr: Addr },
    Wait { skip: u32 },
    Desync { frame: i32, local: u128, remote: u128, addr: Addr },
}

impl Ev {
    fn from<C: SimCfg>(e: GgrsEvent<C>) -> Ev {
        match e {
            GgrsEvent::Synchronizing { addr, total, count } => Ev::Synchronizing { addr, total, count },
            GgrsEvent::Synchronized { addr } => Ev::Synchronized { addr },
            GgrsEvent::Disconnected { addr } => Ev::Disconnected { addr },
            GgrsEvent::NetworkInterrupted { addr, disconnect_timeout } => Ev::Interrupted { addr, timeout_ms: disconnect_timeout },
            GgrsEvent::NetworkResumed { addr } => Ev::Resumed { addr },
            GgrsEvent::WaitRecommendation { skip_frames } => Ev::Wait { skip: skip_frames },
            GgrsEvent::DesyncDetected { frame, local_checksum, remote_checksum, addr } => {
                Ev::Desync { frame, local: local_checksum, remote: remote_checksum, addr }
            }
        }
    }
    pub fn addr(&self) -> Option<Addr> {
        match self {
            Ev::Synchronizing { addr, .. }
            | Ev::Synchronized { addr }
            | Ev::Disconnected { addr }
            | Ev::Interrupted { addr, .. }
            | Ev::Resumed { addr }
            | Ev::Desync { addr, .. } => Some(*addr),
            Ev::Wait { .. } => None,
        }
    }
    fn code(&self) -> u64 {
        match self {
            Ev::Synchronizing { addr, count, .. } => 1 + 16 * (*addr as u64) + 4096 * (*count as u64),
            Ev::Synchronized { addr } => 2 + 16 * (*addr as u64),
            Ev::Disconnected { addr } => 3 + 16 * (*addr as u64),
            Ev::Interrupted { addr, .. } => 4 + 16 * (*addr as u64),
            Ev::Resumed { addr } => 5 + 16 * (*addr as u64),
            Ev::Wait { skip } => 6 + 16 * (*skip as u64),
            Ev::Desync { frame, addr, .. } => 7 + 16 * (*addr as u64) + 4096 * (*frame as u64),
        }
    }
}

#[derive(Default, Clone, Debug)]
pub struct Probes {
    pub ticks: u64,
    pub polls: u64,
    pub frames_first: u64,
    pub resims: u64,
    pub rollbacks: u64,
    pub max_rollback_depth: u32,
    pub rollbacks_at_window: u64,
    pub stalls_prediction_limit: u64,
    pub stalls_lockstep: u64,
    pub not_synchronized_calls: u64,
    pub mispredictions: u64,
    pub predicted_inputs: u64,
    pub double_loads: u64,
    pub saves: u64,
    pub sealed_frames: u64,
    pub dropped_submissions: u64,
    pub delay_fills: u64,
    pub spectator_frames: u64,
    pub spectator_catchup_calls: u64,
    pub spectator_waits: u64,
    pub spectator_too_far: u64,
    pub events: BTreeMap<&'static str, u64>,
    pub api_calls: u64,
    pub ring_wraps_input: u64,
    pub max_frame: i32,
    pub sim_us: u64,
    pub heap_events: u64,
    pub extra: BTreeMap<&'static str, u64>,
}

pub struct NodeObs {
    pub hist: Vec<u64>,
    pub used: Vec<Vec<(u32, St)>>,
    pub sealed: i32,
    pub final_frame: i32,
    pub events: Vec<(u64, Ev)>,
    pub req_trace: u64,
    pub alive: bool,
    pub is_peer: bool,
    pub conn: Vec<(bool, i32)>,
}

pub struct RunOut {
    pub log: Vec<String>,
    pub violations: Vec<Violation>,
    pub probes: Probes,
    pub counters: FaultCounters,
    pub fired: Vec<Fired>,
    pub trace_hash: u64,
    pub sched_hash: u64,
    pub nodes: Vec<NodeObs>,
    pub end_us: u64,
}

// ------------------------------------------------------------------ nodes

enum Sess<C: SimCfg> {
    Peer(P2PSession<C>),
    Spec(SpectatorSession<C>),
}

struct Node<C: SimCfg> {
    sess: Sess<C>,
    game: Game,
    locals: Vec<usize>,
    host: usize,
    catchup: usize,
    max_behind: usize,
    alive: bool,
    tick_no: u64,
    rng: u64,
    events: Vec<(u64, Ev)>,
    last_conf: i32,
    exp_state: Vec<u64>,
    attempts: BTreeMap<usize, (i32, u32)>,
    api_done: Vec<bool>,
    /// per remote address: grammar automaton state
    grammar: BTreeMap<Addr, Grammar>,
    spectator_next: i32,
    /// newest frame number carried by an Input packet delivered to this (spectator) node
    clock_floor: u64,
    min_fb_late: usize,
    last_too_far: bool,
    watch: BTreeMap<Addr, Watch>,
    was_running: bool,
    desync_seen: Option<u64>,
    desync_due_since: Option<u64>,
    last_wait_frame: Option<i32>,
    last_quality_report: Option<i32>,
    frame_at_heal: Option<i32>,
    /// per player: the last frame this node held of it at the moment it marked it disconnected
    cut_amount: BTreeMap<usize, i32>,
    /// virtual time of this node's latest tick
    last_tick_us: u64,
}

#[derive(Clone, Debug, Default)]
struct Watch {
    last_recv: u64,
    running: bool,
    notified: bool,
    disc_sent: bool,
    disconnected: bool,
    api_disconnected: bool,
    shutdown_at: Option<u64>,
    remote_magic: u16,
    matches: u32,
    matched: Vec<u32>,
}

#[derive(Clone, Copy, Debug, PartialEq, Eq)]
enum GState_ {
    Syncing(u32),
    Running,
    Interrupted,
    Disconnected,
}
#[derive(Clone, Copy, Debug)]
struct Grammar {
    st: GState_,
}

pub struct World<'p, C: SimCfg> {
    plan: &'p Plan,
    now: u64,
    heap: BinaryHeap<Reverse<(u64, u8, u64, u64, u64)>>,
    nodes: Vec<Node<C>>,
    core: Rc<RefCell<NetCore>>,
    models: Vec<Option<DelayModel>>,
    viol: Vec<Violation>,
    probes: Probes,
    trace: Roll,
    sched: Roll,
    fatal: bool,
}

const D_TICK: u64 = dom("tick.jitter");
const D_PREPOLL: u64 = dom("tick.prepoll");
const D_INPUT: u64 = dom("input");
const D_SUBMIT: u64 = dom("submit.order");
const CL_INJECT: u8 = 1;
const CL_POLL: u8 = 2;
const CL_TICK: u8 = 3;

pub fn input_value(plan: &Plan, p: usize, u: i32, attempt: u32) -> u32 {
    let s = plan.seed;
    match plan.cfg.input_mode {
        InputMode::Unique => (((p as u32 + 1) & 0x7) << 28) | (((u as u32) & 0xf_ffff) << 8) | (h(s, D_INPUT, &[p as u64, u as u64]) as u32 & 0xff),
        InputMode::Held(n) => (h(s, D_INPUT, &[p as u64, (u as u64) / n.max(1) as u64]) % 4) as u32,
        InputMode::MostlyDefault(n) => {
            let x = h(s, D_INPUT, &[p as u64, u as u64]);
            if x % n.max(1) as u64 == 0 {
                1 + ((x >> 20) % 255) as u32
            } else {
                0
            }
        }
        InputMode::Constant => p as u32 + 1,
        InputMode::PerAttempt => (((p as u32 + 1) & 0x7) << 28) | (((u as u32) & 0xffff) << 12) | ((attempt & 0xf) << 8) | (h(s, D_INPUT, &[p as u64, u as u64]) as u32 & 0xff),
    }
}

impl<'p, C: SimCfg> World<'p, C> {
    fn enter(&self, i: usize) {
        let cfg = &self.plan.cfg;
        // a node that blocked in the lockstep wait loop has seen its own clock run ahead: keep it monotone
        let now = self.now.max(self.nodes.get(i).map(|n| n.clock_floor).unwrap_or(0));
        ggrs::verif::set_now_micros(now);
        ggrs::verif::set_wall_offset_ms(self.plan.nodes[i].wall_offset_ms as u128);
        ggrs::verif::set_hash_per_map(cfg.hash_per_map);
        ggrs::verif::set_hash_seed(mix(cfg.hash_seed ^ (i as u64) << 40));
        ggrs::verif::set_clock_bump_micros(cfg.clock_bump_us);
        ggrs::verif::set_rng_state(self.nodes.get(i).map(|n| n.rng).unwrap_or_else(|| mix(cfg.rng_seed ^ i as u64)));
        self.core.borrow_mut().now_us = now;
        crate::alloc::reset_max();
    }
    fn leave(&mut self, i: usize) {
        self.nodes[i].rng = ggrs::verif::rng_state();
        if self.plan.cfg.clock_bump_us > 0 {
            // this node's clock has run ahead during the call; it never goes back
            self.nodes[i].clock_floor = self.nodes[i].clock_floor.max(ggrs::verif::now_micros());
        }
        ggrs::verif::set_clock_bump_micros(0);
        let m = crate::alloc::max_request();
        if m > crate::alloc::LIMIT {
            let g = self.nodes[i].game.g;
            self.violate("c08.allocation", i, g, format!("node {i}: a session call requested a single allocation of {m} bytes"));
        }
        crate::alloc::reset_max();
    }

    fn violate(&mut self, class: &str, node: usize, frame: i32, text: String) {
        self.viol.push(Violation { class: class.to_owned(), text, t_us: self.now, node, frame });
    }

    fn panic_violation(&mut self, node: usize, what: &str, p: (String, String)) {
        let loc = short_loc(&p.1);
        let frame = self.nodes.get(node).map(|n| n.game.g).unwrap_or(-1);
        let split = if self.survivors_split() { "+split" } else { "" };
        self.violate(&format!("{}{split}", panic_class(&p)), node, frame, format!("{what} panicked at {loc}: {}", p.0));
        self.fatal = true;
    }

    /// True when a node has stopped and the peers still alive hold different last frames for its
    /// players (they received different amounts of its input): the precondition of the recorded
    /// C10 finding.
    fn survivors_split(&self) -> bool {
        let dead: Vec<usize> = self.plan.peers().into_iter().filter(|&i| self.plan.nodes[i].tick.stop_us.is_some_and(|t| t <= self.now)).collect();
        let mut split = false;
        for v in dead {
            for &pl in &self.nodes[v].locals {
                // "received" is measured when a survivor marks the player disconnected: what a
                // session does to its record of the last frame afterwards is behaviour under test,
                // not a precondition
                let lfs: Vec<i32> = self
                    .plan
                    .peers()
                    .into_iter()
                    .filter(|&i| self.plan.nodes[i].tick.stop_us.is_none())
                    .filter_map(|i| match &self.nodes[i].sess {
                        Sess::Peer(s) => self.nodes[i].cut_amount.get(&pl).copied().or_else(|| s.verif_connect_status(pl).map(|c| c.1)),
                        _ => None,
                    })
                    .collect();
                if lfs.windows(2).any(|w| w[0] != w[1]) {
                    split = true;
                }
            }
        }
        split
    }

    pub fn new(plan: &'p Plan) -> Result<Self, String> {
        let core = Rc::new(RefCell::new(NetCore::new(plan)));
        let mut w = World {
            plan,
            now: 0,
            heap: BinaryHeap::new(),
            nodes: Vec::new(),
            core,
            models: vec![None; plan.cfg.num_players],
            viol: Vec::new(),
            probes: Probes::default(),
            trace: Roll::default(),
            sched: Roll::default(),
            fatal: false,
        };
        let cfg = &plan.cfg;
        for (i, ns) in plan.nodes.iter().enumerate() {
            // the clock, hash seed and random stream are set BEFORE construction:
            // UdpProtocol::new stamps its timers and draws its magic there
            w.enter(i);
            let sock = SimSocket { me: i, core: w.core.clone() };
            let mut b = SessionBuilder::<C>::new()
                .with_num_players(cfg.num_players)
                .map_err(|e| e.to_string())?
                .with_max_prediction_window(cfg.max_prediction)
                .with_input_delay(cfg.input_delay)
                .with_sparse_saving_mode(cfg.sparse)
                .with_fps(cfg.fps)
                .map_err(|e| e.to_string())?
                .with_disconnect_timeout(Duration::from_millis(ns.timeout_ms.unwrap_or(cfg.timeout_ms)))
                .with_disconnect_notify_delay(Duration::from_millis(ns.notify_ms.unwrap_or(cfg.notify_ms)))
                .with_desync_detection_mode(if cfg.desync_interval > 0 {
                    DesyncDetection::On { interval: cfg.desync_interval }
                } else {
                    DesyncDetection::Off
                });
            let node = match &ns.kind {
                NodeKind::Peer { locals } => {
                    for hnd in 0..cfg.num_players {
                        let owner = plan.owner_of(hnd).ok_or_else(|| format!("player {hnd} has no owner"))?;
                        let pt = if owner == i { PlayerType::Local } else { PlayerType::Remote(owner as Addr) };
                        b = b.add_player(pt, hnd).map_err(|e| e.to_string())?;
                    }
                    for (k, s) in plan.num_spectators_of(i).into_iter().enumerate() {
                        b = b.add_player(PlayerType::Spectator(s as Addr), cfg.num_players + k).map_err(|e| e.to_string())?;
                    }
                    for &l in locals {
                        w.models[l] = Some(DelayModel::new(cfg.input_delay));
                    }
                    let sess = guarded(|| b.start_p2p_session(sock)).map_err(|p| format!("builder panicked: {p:?}"))?.map_err(|e| e.to_string())?;
                    Node::new(Sess::Peer(sess), locals.clone(), i, 1, 0)
                }
                NodeKind::Spectator { host, max_frames_behind, catchup_speed } => {
                    b = b
                        .with_max_frames_behind(*max_frames_behind)
                        .map_err(|e| e.to_string())?
                        .with_catchup_speed(*catchup_speed)
                        .map_err(|e| e.to_string())?;
                    let sess = guarded(|| b.start_spectator_session(*host as Addr, sock)).map_err(|p| format!("builder panicked: {p:?}"))?;
                    Node::new(Sess::Spec(sess), Vec::new(), *host, *catchup_speed, *max_frames_behind)
                }
            };
            let mut node = node;
            node.game.own_snapshots = cfg.own_snapshots;
            node.game.checksum_layout = cfg.checksum_layout;
            if cfg.own_snapshots && i == 0 {
                w.probes.extra.insert("runs_with_own_snapshots", 1);
            }
            w.nodes.push(node);
            for (j, other) in plan.nodes.iter().enumerate() {
                let watched = match (&ns.kind, &other.kind) {
                    _ if i == j => false,
                    // a peer only has an endpoint towards peers that own at least one player
                    (NodeKind::Peer { .. }, NodeKind::Peer { locals }) => !locals.is_empty(),
                    (NodeKind::Peer { .. }, NodeKind::Spectator { host, .. }) => *host == i,
                    (NodeKind::Spectator { host, .. }, NodeKind::Peer { .. }) => *host == j,
                    _ => false,
                };
                if watched {
                    w.nodes[i].watch.insert(j as Addr, Watch::default());
                }
            }
            w.nodes[i].rng = ggrs::verif::rng_state();
            w.nodes[i].api_done = vec![false; plan.api.len()];
            if let Some((pf, mode)) = plan.perturb.iter().find(|p| p.node == i).map(|p| (p.frame, p.mode.clone())) {
                w.nodes[i].game.perturb = Some((pf, mode));
            }
            w.heap.push(Reverse((ns.tick.start_us, CL_TICK, i as u64, 0, 0)));
            if ns.tick.poll_period_us > 0 {
                // polling starts with the process, not with the first frame
                w.heap.push(Reverse((ns.tick.poll_period_us / 2, CL_POLL, i as u64, 0, 0)));
            }
        }
        for (k, inj) in plan.injects.iter().enumerate() {
            w.heap.push(Reverse((inj.at_us, CL_INJECT, k as u64, 0, 0)));
        }
        Ok(w)
    }

    fn paused(&self, i: usize, t: u64) -> Option<u64> {
        self.plan.nodes[i].tick.pauses.iter().find(|(a, b)| t >= *a && t < *b).map(|(_, b)| *b)
    }

    fn next_tick_time(&self, i: usize, t: u64, n: u64) -> u64 {
        let ts = &self.plan.nodes[i].tick;
        let mut nt = t + ts.period_us;
        if ts.jitter_us > 0 {
            nt += h(self.plan.seed, D_TICK, &[i as u64, n]) % (ts.jitter_us + 1);
        }
        if let Some(end) = self.paused(i, nt) {
            nt = end;
        }
        nt
    }

    pub fn run(mut self) -> RunOut {
        let horizon = self.plan.horizon_us;
        loop {
            let next_ev = self.heap.peek().map(|Reverse(k)| k.0);
            let next_del = self.core.borrow().next_delivery();
            let deliver_first = match (next_del, next_ev) {
                (None, None) => break,
                (Some(d), Some(e)) => d <= e,
                (Some(_), None) => true,
                (None, Some(_)) => false,
            };
            if self.fatal || !self.viol.is_empty() {
                break;
            }
            if deliver_first {
                let t = next_del.unwrap();
                if t > horizon {
                    break;
                }
                self.now = t;
                self.probes.heap_events += 1;
                self.core.borrow_mut().deliver_next();
                continue;
            }
            let Reverse((t, class, a, b, _id)) = self.heap.pop().unwrap();
            if t > horizon {
                break;
            }
            self.now = t;
            self.probes.heap_events += 1;
            match class {
                CL_INJECT => {
                    self.sched.add_all(&[1, a]);
                    self.do_inject(a as usize);
                }
                CL_POLL => {
                    let i = a as usize;
                    let ts = &self.plan.nodes[i].tick;
                    if ts.stop_us.is_some_and(|s| t >= s) {
                        continue;
                    }
                    let next = match self.paused(i, t + ts.poll_period_us) {
                        Some(end) => end,
                        None => t + ts.poll_period_us,
                    };
                    self.heap.push(Reverse((next, CL_POLL, a, b + 1, 0)));
                    if self.paused(i, t).is_none() {
                        self.sched.add_all(&[2, a]);
                        self.poll_only(i);
                    }
                }
                CL_TICK => {
                    let i = a as usize;
                    let ts = &self.plan.nodes[i].tick;
                    if ts.stop_us.is_some_and(|s| t >= s) {
                        if self.nodes[i].alive {
                            self.nodes[i].alive = false;
                            self.core.borrow_mut().dead[i] = true;
                        }
                        continue;
                    }
                    // a node that blocked in the lockstep wait loop is still inside that call: its next
                    // tick cannot start before the call returned
                    if t < self.nodes[i].clock_floor {
                        let at = self.nodes[i].clock_floor;
                        self.heap.push(Reverse((at, CL_TICK, a, b, 0)));
                        continue;
                    }
                    let nt = self.next_tick_time(i, t, b);
                    self.heap.push(Reverse((nt, CL_TICK, a, b + 1, 0)));
                    self.sched.add_all(&[3, a]);
                    self.trace.add_all(&[t, 3, a]);
                    self.probes.ticks += 1;
                    self.nodes[i].tick_no = b;
                    self.tick(i);
                    if self.core.borrow().log.is_some() {
                        let line = format!("t={} tick node {i} #{b} -> frame {} trace {:016x}", t, self.nodes[i].game.g, self.nodes[i].game.trace.0);
                        self.core.borrow_mut().log.as_mut().unwrap().push(line);
                    }
                }
                _ => unreachable!(),
            }
            // liveness bookkeeping
            if let Some(lv) = &self.plan.oracle.liveness {
                if t >= (lv.heal_us + lv.deadline_us) / 2 {
                    for n in self.nodes.iter_mut() {
                        if n.frame_at_heal.is_none() {
                            n.frame_at_heal = Some(n.game.g);
                        }
                    }
                }
            }
        }
        self.finish()
    }

    // -------------------------------------------------------------- injection

    fn do_inject(&mut self, k: usize) {
        let inj = &self.plan.injects[k];
        let to = inj.to;
        let from = inj.from_addr as usize;
        let real_magic = self.core.borrow().last_magic.get(&(from, to)).copied();
        let known = from < self.nodes.len() && self.nodes[to].watch.contains_key(&inj.from_addr);
        if known {
            let synced = self.nodes[to].watch.get(&inj.from_addr).is_some_and(|w| w.running);
            // (handshake packets and keep-alives are the exception: whatever magic they carry, before
            // the handshake is through they may cost a reply but must not decide anything - a peer
            // that was restarted while connecting sends exactly such packets)
            // (a request draws a reply, and in a run with a death every extra packet shifts the timing
            // that the cut-off frame depends on: there only the kinds that draw none)
            let has_death = self.plan.nodes.iter().any(|n| n.tick.stop_us.is_some());
            let handshake_kind = match &inj.payload {
                Payload::Msg { body: MBody::SyncReply { .. } | MBody::KeepAlive, .. } => true,
                Payload::Msg { body: MBody::SyncRequest { .. }, .. } => !has_death,
                _ => false,
            };
            if matches!(&inj.payload, Payload::Msg { magic: MagicSel::Wrong, .. }) && !synced && !handshake_kind {
                // before the handshake with that address completes the endpoint cannot know the
                // right magic: out of the statement's scope
                *self.probes.extra.entry("forged_skipped_before_handshake").or_insert(0) += 1;
                return;
            }
            *self.probes.extra.entry("forged_from_known_address").or_insert(0) += 1;
            if !synced && matches!(&inj.payload, Payload::Msg { magic: MagicSel::Wrong, .. }) {
                *self.probes.extra.entry("forged_foreign_magic_during_handshake").or_insert(0) += 1;
            }
        } else {
            *self.probes.extra.entry("forged_from_unknown_address").or_insert(0) += 1;
        }
        let bytes = match &inj.payload {
            Payload::Raw(b) => Some(b.clone()),
            Payload::Msg { magic, body } => {
                let m = match magic {
                    MagicSel::Real => real_magic.unwrap_or(0),
                    MagicSel::Wrong => real_magic.map(|m| if m == 0xffff { 1 } else { m + 1 }).unwrap_or(0x1234),
                    MagicSel::Zero => 0,
                };
                Some(MMsg { magic: m, body: body.clone() }.to_bytes())
            }
            Payload::MutateLastInput(mu) => {
                let mut last = self.core.borrow().last_input.get(&(from, to)).cloned();
                if last.is_none() && known && !self.plan.cfg.variable_size_input {
                    // nothing sent on this link yet: start from the packet the sender would send first
                    if let Some(NodeKind::Peer { locals }) = self.plan.nodes.get(from).map(|n| &n.kind) {
                        let np = self.plan.cfg.num_players;
                        // a host sends its spectators the inputs of all players
                        let to_spectator = matches!(self.plan.nodes[to].kind, NodeKind::Spectator { .. });
                        let frame = vec![0u8; 4 * if to_spectator { np } else { locals.len().max(1) }];
                        last = Some(MMsg {
                            magic: real_magic.unwrap_or(0x7777),
                            body: MBody::Input(MInput {
                                peer_connect_status: (0..np).map(|_| MConn { disconnected: false, last_frame: -1 }).collect(),
                                disconnect_requested: false,
                                start_frame: 0,
                                ack_frame: -1,
                                bytes: ggrs::verif::encode(&[], &[frame]),
                            }),
                        });
                        *self.probes.extra.entry("forged_before_first_input").or_insert(0) += 1;
                    }
                }
                let mut skip = false;
                let receiver_holds: Vec<i32> = match self.nodes.get(to).map(|n| &n.sess) {
                    Some(Sess::Peer(s)) => (0..self.plan.cfg.num_players).map(|pl| s.verif_connect_status(pl).map(|x| x.1).unwrap_or(-1)).collect(),
                    _ => Vec::new(),
                };
                let r = last.map(|mut m| {
                    if let MBody::Input(inp) = &mut m.body {
                        let orig = ggrs::verif::decode(&[], &inp.bytes).unwrap_or_default();
                        let size = orig.first().map(|f| f.len()).unwrap_or(0);
                        let mut payload_changed = true;
                        match mu {
                            InputMutation::Bytes(b) => inp.bytes = b.clone(),
                            InputMutation::FlipBit(n) => {
                                if !inp.bytes.is_empty() {
                                    let bit = *n as usize % (inp.bytes.len() * 8);
                                    inp.bytes[bit / 8] ^= 1 << (bit % 8);
                                }
                            }
                            InputMutation::Truncate(n) => {
                                let keep = (*n as usize) % (inp.bytes.len() + 1);
                                inp.bytes.truncate(keep);
                            }
                            InputMutation::StatusCount(n) => {
                                inp.peer_connect_status.resize(*n, MConn { disconnected: false, last_frame: -1 });
                                payload_changed = false;
                            }
                            InputMutation::NegativeStart(s) => {
                                inp.start_frame = -(s.abs().max(1));
                                payload_changed = false;
                            }
                            InputMutation::NegativeStartLong { start, extra } => {
                                inp.start_frame = (*start).min(-1);
                                let mut frames = orig.clone();
                                for k in 0..*extra {
                                    frames.push((0..size).map(|i| 0x31u8.wrapping_mul(k + 1).wrapping_add(i as u8)).collect());
                                }
                                inp.bytes = ggrs::verif::encode(&[], &frames);
                                payload_changed = false;
                            }
                            InputMutation::WrongSize => {
                                // re-encode the frames with the last one a byte longer: the receiver
                                // decodes frames of the wrong size
                                let mut frames = orig.clone();
                                if let Some(f) = frames.last_mut() {
                                    f.push(0x5a);
                                }
                                inp.bytes = ggrs::verif::encode(&[], &frames);
                            }
                            InputMutation::DoubleSize => {
                                let mut frames = orig.clone();
                                if let Some(f) = frames.last_mut() {
                                    let n = f.len();
                                    f.extend((0..n).map(|i| 0xa5u8.wrapping_add(i as u8)));
                                }
                                inp.bytes = ggrs::verif::encode(&[], &frames);
                            }
                            InputMutation::Piggyback { garbage, ack_delta, disconnect_player, last_frame } => {
                                if *garbage == 3 {
                                    // the genuine payload, untouched: a well-formed packet whose only
                                    // news is the connection status (scripted peer, C17)
                                    payload_changed = false;
                                }
                                match garbage {
                                    3 => {}
                                    0 => {
                                        let mut frames = orig.clone();
                                        if let Some(f) = frames.last_mut() {
                                            f.push(0x5a);
                                        }
                                        inp.bytes = ggrs::verif::encode(&[], &frames);
                                    }
                                    1 => {
                                        let keep = inp.bytes.len() / 2;
                                        inp.bytes.truncate(keep);
                                    }
                                    _ => inp.bytes = vec![0x80],
                                }
                                inp.ack_frame = inp.ack_frame.saturating_add(*ack_delta);
                                if let Some(pl) = disconnect_player {
                                    // i32::MIN: the last frame the receiver itself holds for that player right now
                                    let lf = if *last_frame == i32::MIN { receiver_holds.get(*pl).copied().unwrap_or(-1) } else { *last_frame };
                                    if let Some(st) = inp.peer_connect_status.get_mut(*pl) {
                                        *st = MConn { disconnected: true, last_frame: lf };
                                    }
                                }
                                *self.probes.extra.entry("forged_piggyback").or_insert(0) += 1;
                            }
                        }
                        if payload_changed {
                            // Only payloads that are NOT a valid encoding of right-sized frames are in the
                            // statement's scope: a forgery that is well formed in every respect (right
                            // address, right magic, valid encoding, right sizes) is indistinguishable from
                            // real traffic and is not what the property is about.
                            let well_formed = ggrs::verif::decode(&[], &inp.bytes).is_ok_and(|fr| !fr.is_empty() && fr.iter().all(|f| f.len() == size));
                            if std::env::var("VERIF_TRACE").is_ok() {
                                println!("  inject {mu:?}: original frames {:?}, mutated {:?} start {} well_formed {well_formed}", orig, ggrs::verif::decode(&[], &inp.bytes), inp.start_frame);
                            }
                            if well_formed {
                                skip = true;
                            }
                        }
                    }
                    m.to_bytes()
                });
                if skip {
                    *self.probes.extra.entry("forged_skipped_well_formed").or_insert(0) += 1;
                    None
                } else {
                    r
                }
            }
        };
        if let Some(b) = bytes {
            self.trace.add_all(&[self.now, 1, to as u64, b.len() as u64]);
            self.core.borrow_mut().inject(to, inj.from_addr, b);
        }
    }

    // -------------------------------------------------------------- node steps

    fn drain_events(&mut self, i: usize) -> Vec<Ev> {
        if !self.plan.nodes[i].drain {
            return Vec::new();
        }
        let evs: Vec<Ev> = match &mut self.nodes[i].sess {
            Sess::Peer(s) => s.events().map(Ev::from::<C>).collect(),
            Sess::Spec(s) => s.events().map(Ev::from::<C>).collect(),
        };
        for e in &evs {
            self.trace.add_all(&[self.now, 9, i as u64, e.code()]);
            *self.probes.events.entry(ev_name(e)).or_insert(0) += 1;
            self.on_event(i, e);
            self.nodes[i].events.push((self.now, e.clone()));
        }
        evs
    }

    /// Reference model of the connection lifecycle per (session, remote address): handshake
    /// accounting (which replies match a request that was really sent) and the two silence
    /// timers. Compared, poll by poll, with the events the session actually reported.
    fn check_lifecycle(&mut self, i: usize, recv: &[(Addr, Option<MMsg>, bool)], evs: &[Ev]) {
        let o = &self.plan.oracle;
        if !o.lifecycle || !self.plan.nodes[i].drain {
            return;
        }
        let exact_timing = o.lifecycle_timing && !(self.plan.nodes[i].tick.use_wait && self.plan.cfg.max_prediction == 0) && self.plan.cfg.clock_bump_us == 0;
        let t = self.now;
        let notify = self.plan.nodes[i].notify_ms.unwrap_or(self.plan.cfg.notify_ms) * 1000;
        let timeout = self.plan.nodes[i].timeout_ms.unwrap_or(self.plan.cfg.timeout_ms) * 1000;
        let addrs: Vec<Addr> = self.nodes[i].watch.keys().copied().collect();
        let mut all_synced = true;
        for x in addrs {
            let sent: Vec<u32> = self.core.borrow().sync_requests.get(&(i, x as usize)).cloned().unwrap_or_default();
            let mut w = self.nodes[i].watch.get(&x).cloned().unwrap();
            let mut expect: Vec<Ev> = Vec::new();
            for (from, m, _inj) in recv {
                if *from != x {
                    continue;
                }
                let Some(m) = m else { continue };
                if w.shutdown_at.is_some_and(|s| t > s) {
                    continue;
                }
                if w.remote_magic != 0 && m.magic != w.remote_magic {
                    continue;
                }
                w.last_recv = t;
                if w.running && w.notified && !w.disconnected && !w.disc_sent {
                    w.notified = false;
                    expect.push(Ev::Resumed { addr: x });
                }
                if let MBody::SyncReply { random_reply } = m.body {
                    // a reply matches if its nonce was sent to this address more often than it has been matched
                    // (the 32-bit nonces of one handshake can repeat: about once in 10^8 handshakes)
                    let n_sent = sent.iter().filter(|x| **x == random_reply).count();
                    let n_matched = w.matched.iter().filter(|x| **x == random_reply).count();
                    if w.matches < 5 && !w.disconnected && n_sent > n_matched {
                        w.matched.push(random_reply);
                        w.matches += 1;
                        if w.matches < 5 {
                            expect.push(Ev::Synchronizing { addr: x, total: 5, count: w.matches });
                        } else {
                            expect.push(Ev::Synchronized { addr: x });
                            w.running = true;
                            w.remote_magic = m.magic;
                        }
                    }
                }
                if let MBody::Input(inp) = &m.body {
                    if inp.disconnect_requested && w.running && !w.disc_sent && !w.disconnected {
                        w.disc_sent = true;
                        expect.push(Ev::Disconnected { addr: x });
                    }
                }
            }
            if w.running && !w.disconnected {
                if !w.notified && !w.disc_sent && w.last_recv + notify < t {
                    w.notified = true;
                    expect.push(Ev::Interrupted { addr: x, timeout_ms: (timeout.saturating_sub(notify) / 1000) as u128 });
                }
                if !w.disc_sent && w.last_recv + timeout < t {
                    w.disc_sent = true;
                    expect.push(Ev::Disconnected { addr: x });
                }
            }
            let got: Vec<Ev> = evs.iter().filter(|e| e.addr() == Some(x) && !matches!(e, Ev::Desync { .. })).cloned().collect();
            // what the model cannot predict: disconnects decided elsewhere (overflow of unacknowledged
            // inputs, gossip, explicit API call). They end the lifecycle of that address.
            let unpredicted_disconnect = got.iter().any(|e| matches!(e, Ev::Disconnected { .. })) && !expect.iter().any(|e| matches!(e, Ev::Disconnected { .. }));
            if got.iter().any(|e| matches!(e, Ev::Disconnected { .. })) {
                w.disconnected = true;
                w.shutdown_at = Some(t + 5_000_000);
            }
            let (got_cmp, exp_cmp): (Vec<Ev>, Vec<Ev>) = if exact_timing && !unpredicted_disconnect && !w.api_disconnected {
                (got.clone(), expect.clone())
            } else {
                // handshake events only
                let hs = |v: &Vec<Ev>| v.iter().filter(|e| matches!(e, Ev::Synchronizing { .. } | Ev::Synchronized { .. })).cloned().collect::<Vec<_>>();
                (hs(&got), hs(&expect))
            };
            if got_cmp != exp_cmp {
                let g = self.nodes[i].game.g;
                self.violate(
                    "c12.lifecycle_model",
                    i,
                    g,
                    format!(
                        "node {i}, address {x}, poll at {} ms: session reported {:?} but the handshake/timer model expects {:?} (last accepted packet at {} ms, notify {} ms, timeout {} ms, matched replies {})",
                        t / 1000,
                        got_cmp,
                        exp_cmp,
                        w.last_recv / 1000,
                        notify / 1000,
                        timeout / 1000,
                        w.matches
                    ),
                );
            }
            if w.matches < 5 && !w.disconnected && !w.api_disconnected {
                all_synced = false;
            }
            self.nodes[i].watch.insert(x, w);
        }
        let running = match &self.nodes[i].sess {
            Sess::Peer(s) => s.current_state() == SessionState::Running,
            Sess::Spec(s) => s.current_state() == SessionState::Running,
        };
        if running != all_synced && !self.nodes[i].watch.is_empty() {
            // once Running a session stays Running
            if !(running && self.nodes[i].was_running) {
                let g = self.nodes[i].game.g;
                self.violate(
                    "c12.running_vs_handshakes",
                    i,
                    g,
                    format!("node {i}: current_state() is {} but {} remote address has completed the full handshake", if running { "Running" } else { "Synchronizing" }, if all_synced { "every" } else { "not every" }),
                );
            }
        }
        if running {
            self.nodes[i].was_running = true;
        }
    }

    fn on_event(&mut self, i: usize, e: &Ev) {
        let o = &self.plan.oracle;
        if o.no_disconnect_events {
            if let Ev::Disconnected { addr } = e {
                self.violate("c05.disconnected", i, self.nodes[i].game.g, format!("node {i} reports Disconnected for address {addr} although every fault ended before the timeout"));
            }
        }
        if o.no_interrupted_events {
            if let Ev::Interrupted { addr, .. } = e {
                self.violate("c12.interrupted_while_healthy", i, self.nodes[i].game.g, format!("node {i} reports NetworkInterrupted for address {addr} although both sessions poll regularly over a healthy link"));
            }
        }
        if o.no_desync_events {
            if let Ev::Desync { frame, local, remote, addr } = e {
                self.violate(
                    "c09.false_desync",
                    i,
                    *frame,
                    format!("node {i} reports DesyncDetected{{frame {frame}, local {local:x}, remote {remote:x}, addr {addr}}} although every game is deterministic"),
                );
            }
        }
        if let Ev::Desync { frame, local, remote, addr } = e {
            *self.probes.extra.entry("desync_events").or_insert(0) += 1;
            if let Some(pt) = self.plan.perturb.iter().find(|p| p.mode == PerturbMode::Consistent) {
                let (f0, x) = (pt.frame, pt.node);
                let involved = i == x || *addr as usize == x;
                if *frame < f0 || !involved {
                    self.violate("c09.desync_wrong_frame_or_peer", i, *frame, format!("node {i} reports DesyncDetected{{frame {frame}, addr {addr}}} but only node {x} diverges, from frame {f0} on"));
                }
                let mine = self.nodes[i].game.checksums.get(frame).cloned().unwrap_or_default();
                let theirs = self.nodes.get(*addr as usize).map(|n| n.game.checksums.get(frame).cloned().unwrap_or_default()).unwrap_or_default();
                if !mine.iter().any(|c| *c == *local) {
                    self.violate("c09.desync_checksum", i, *frame, format!("node {i}: DesyncDetected for frame {frame} carries local checksum {local:x}, which this peer never computed for that frame (it saved {mine:x?})"));
                }
                if !theirs.iter().any(|c| *c == *remote) {
                    self.violate("c09.desync_checksum", i, *frame, format!("node {i}: DesyncDetected for frame {frame} carries remote checksum {remote:x}, which node {addr} never computed for that frame (it saved {theirs:x?})"));
                }
                if self.nodes[i].desync_seen.is_none() {
                    self.nodes[i].desync_seen = Some(self.now);
                }
            }
        }
        if o.event_grammar {
            if let Some(addr) = e.addr() {
                if matches!(e, Ev::Desync { .. }) {
                    return;
                }
                let g = self.nodes[i].grammar.entry(addr).or_insert(Grammar { st: GState_::Syncing(0) });
                let before = g.st;
                let next = match (before, e) {
                    (GState_::Syncing(c), Ev::Synchronizing { total, count, .. }) if *count == c + 1 && *count < *total && *total == 5 => Some(GState_::Syncing(c + 1)),
                    (GState_::Syncing(c), Ev::Synchronized { .. }) if c == 4 => Some(GState_::Running),
                    (GState_::Running, Ev::Interrupted { .. }) => Some(GState_::Interrupted),
                    (GState_::Interrupted, Ev::Resumed { .. }) => Some(GState_::Running),
                    (GState_::Running | GState_::Interrupted, Ev::Disconnected { .. }) => Some(GState_::Disconnected),
                    _ => None,
                };
                match next {
                    Some(n) => g.st = n,
                    None => {
                        let g_ = self.nodes[i].game.g;
                        self.violate("c12.event_grammar", i, g_, format!("node {i}, address {addr}: event {e:?} is not allowed in lifecycle state {before:?}"));
                    }
                }
            }
        }
    }

    fn check_buffers(&mut self, i: usize) {
        if !self.plan.oracle.buffers {
            return;
        }
        let cfg = &self.plan.cfg;
        let (sizes, nlocal, nremote_eps) = match &self.nodes[i].sess {
            Sess::Peer(s) => (s.verif_buffer_sizes(), self.nodes[i].locals.len(), s.remote_player_handles().len()),
            Sess::Spec(s) => (s.verif_buffer_sizes(), 0, 1),
        };
        let g = self.nodes[i].game.g;
        let mut bad: Vec<String> = Vec::new();
        if sizes.event_queue > 100 {
            bad.push(format!("event queue holds {} entries (documented bound 100)", sizes.event_queue));
        }
        if sizes.pending_local_inputs > nlocal {
            bad.push(format!("pending_local_inputs holds {} entries for {nlocal} local players", sizes.pending_local_inputs));
        }
        if nremote_eps == 0 && sizes.outgoing_local_input_entries > 0 {
            bad.push(format!("outgoing_local_inputs holds {} entries although there is no remote", sizes.outgoing_local_input_entries));
        }
        // queued outgoing local inputs: with equal delays a frame is complete as soon as it is queued
        // and leaves at once; with run-time delay changes at most the spread of the delays (0..=6)
        // plus the fills of one increase can wait
        let has_delay_calls = self.plan.api.iter().any(|a| matches!(a.call, Api::SetDelay { .. }));
        let out_bound = if has_delay_calls { 16 } else { 1 };
        if sizes.outgoing_local_input_frames > out_bound {
            bad.push(format!("outgoing_local_inputs holds {} frames ({} entries); bound for this configuration: {out_bound}", sizes.outgoing_local_input_frames, sizes.outgoing_local_input_entries));
        }
        if sizes.local_checksum_history > 33 {
            bad.push(format!("local checksum history holds {} entries", sizes.local_checksum_history));
        }
        for (hnd, e) in &sizes.endpoints {
            if e.pending_output > 128 + cfg.max_prediction + 8 {
                bad.push(format!("endpoint for handle {hnd}: {} unacknowledged inputs", e.pending_output));
            }
            // a function of the configuration and the documented 128-entry output queue only
            // one packet's worth of inputs may be added before the next pruning
            if e.recv_inputs > 2 * (2 * cfg.max_prediction).max(129) + 4 {
                bad.push(format!("endpoint for handle {hnd}: {} remembered received inputs (window {})", e.recv_inputs, cfg.max_prediction));
            }
            if e.pending_checksums > 64 {
                bad.push(format!("endpoint for handle {hnd}: {} pending checksums", e.pending_checksums));
            }
            // the two transient queues are emptied by every poll; between polls they can only hold
            // what one advance_frame call produced
            if e.send_queue > 64 || e.event_queue > 512 {
                bad.push(format!("endpoint for handle {hnd}: send queue {} / event queue {}", e.send_queue, e.event_queue));
            }
        }
        for b in bad {
            self.violate("c18.buffer_bound", i, g, format!("node {i}: {b}"));
        }
    }

    fn poll_only(&mut self, i: usize) {
        self.enter(i);
        self.probes.polls += 1;
        let r = match &mut self.nodes[i].sess {
            Sess::Peer(s) => guarded(|| s.poll_remote_clients()),
            Sess::Spec(s) => guarded(|| s.poll_remote_clients()),
        };
        self.leave(i);
        if let Err(p) = r {
            self.panic_violation(i, "poll_remote_clients()", p);
            return;
        }
        self.after_poll(i);
    }

    fn after_poll(&mut self, i: usize) {
        let recv: Vec<(Addr, Option<MMsg>, bool)> = std::mem::take(&mut self.core.borrow_mut().recv_scratch[i]);
        for (_, m, _) in &recv {
            if let Some(MMsg { body: MBody::QualityReport { frame_advantage, .. }, .. }) = m {
                self.nodes[i].last_quality_report = Some(*frame_advantage as i32);
            }
        }
        for (from, m, inj) in &recv {
            self.trace.add_all(&[self.now, 8, i as u64, *from as u64, m.as_ref().map(|m| m.kind()).unwrap_or(K_UNKNOWN) as u64, *inj as u64]);
        }
        let evs = self.drain_events(i);
        self.check_lifecycle(i, &recv, &evs);
        self.check_buffers(i);
        let node = &mut self.nodes[i];
        if let Sess::Peer(s) = &node.sess {
            for p in 0..self.plan.cfg.num_players {
                if let Some((true, lf)) = s.verif_connect_status(p) {
                    node.cut_amount.entry(p).or_insert(lf);
                }
            }
        }
    }

    /// A run-time delay change may also be called between two submissions of one tick (only in
    /// plans with shuffled submissions, on nodes with several local players).
    fn api_is_mid_submission(&self, i: usize, k: usize) -> bool {
        self.plan.cfg.shuffle_submissions
            && self.nodes[i].locals.len() >= 2
            && matches!(self.plan.api[k].call, Api::SetDelay { .. })
            && h(self.plan.seed, D_SUBMIT, &[k as u64, 7]) % 2 == 0
    }

    fn do_api(&mut self, i: usize, mid_submission: bool) {
        for k in 0..self.plan.api.len() {
            let a = &self.plan.api[k];
            if a.node != i || self.nodes[i].api_done[k] || a.at_us > self.now {
                continue;
            }
            if self.api_is_mid_submission(i, k) != mid_submission {
                continue;
            }
            if mid_submission {
                *self.probes.extra.entry("delay_changes_between_submissions").or_insert(0) += 1;
            }
            self.nodes[i].api_done[k] = true;
            self.probes.api_calls += 1;
            let call = a.call.clone();
            self.trace.add_all(&[self.now, 7, i as u64, k as u64]);
            let Sess::Peer(s) = &mut self.nodes[i].sess else { continue };
            match call {
                Api::SetDelay { handle, delay } => {
                    let r = guarded(|| s.set_input_delay(handle, delay));
                    match r {
                        Err(p) => {
                            self.leave(i);
                            self.panic_violation(i, &format!("set_input_delay({handle}, {delay})"), p);
                            return;
                        }
                        Ok(Ok(())) => {
                            if let Some(Some(m)) = self.models.get_mut(handle) {
                                m.set_delay(delay);
                            }
                        }
                        Ok(Err(e)) => {
                            if self.nodes[i].locals.contains(&handle) {
                                let g = self.nodes[i].game.g;
                                self.violate("c11.set_delay_rejected", i, g, format!("set_input_delay({handle}, {delay}) for a local player returned {e:?}"));
                            }
                        }
                    }
                }
                Api::Disconnect { handle } => {
                    let owner = self.plan.owner_of(handle).or_else(|| {
                        // spectator handle: the k-th spectator of this host
                        handle.checked_sub(self.plan.cfg.num_players).and_then(|k| self.plan.num_spectators_of(i).get(k).copied())
                    });
                    let r = guarded(|| s.disconnect_player(handle));
                    if let (Some(o), Ok(Ok(()))) = (owner, &r) {
                        if let Some(wt) = self.nodes[i].watch.get_mut(&(o as Addr)) {
                            wt.api_disconnected = true;
                            wt.disconnected = true;
                        }
                    }
                    if let Err(p) = r {
                        self.leave(i);
                        self.panic_violation(i, &format!("disconnect_player({handle})"), p);
                        return;
                    }
                }
                Api::AdvanceMissingInput | Api::Poll => {
                    // advance_frame() with an input missing must fail with InvalidRequest (NotSynchronized
                    // before the handshake) and do nothing but poll; the twin polls at the same instant.
                    // Only meaningful when no input is pending from a stalled call.
                    let pending = s.verif_buffer_sizes().pending_local_inputs;
                    let misuse = matches!(call, Api::AdvanceMissingInput) && pending == 0 && !self.nodes[i].locals.is_empty();
                    let locals = self.nodes[i].locals.clone();
                    let Sess::Peer(s) = &mut self.nodes[i].sess else { continue };
                    let r = if misuse {
                        if locals.len() > 1 {
                            let u = s.current_frame();
                            let _ = s.add_local_input(locals[0], C::enc(input_value(self.plan, locals[0], u, 0)));
                        }
                        guarded(|| s.advance_frame().map(|r| r.len()))
                    } else {
                        guarded(|| {
                            s.poll_remote_clients();
                            Err(GgrsError::NotSynchronized)
                        })
                    };
                    let state_after = s.current_state();
                    self.probes.polls += 1;
                    match r {
                        Err(p) => {
                            self.leave(i);
                            self.panic_violation(i, "advance_frame() with a missing input", p);
                            return;
                        }
                        Ok(res) if misuse => {
                            *self.probes.extra.entry("misuse_advance_missing_input").or_insert(0) += 1;
                            let ok = match (&res, state_after) {
                                (Err(GgrsError::InvalidRequest { .. }), SessionState::Running) => true,
                                (Err(GgrsError::NotSynchronized), SessionState::Synchronizing) => true,
                                _ => false,
                            };
                            if !ok {
                                let g = self.nodes[i].game.g;
                                self.violate("c16.misuse_not_rejected", i, g, format!("advance_frame() with a local input missing returned {res:?} in state {state_after:?}"));
                            }
                        }
                        Ok(_) => {}
                    }
                    self.leave(i);
                    self.after_poll(i);
                    if !self.viol.is_empty() {
                        return;
                    }
                    self.enter(i);
                }
                Api::AddInputWrongHandle { .. } | Api::NetStats { .. } | Api::DisconnectMisuse { .. } | Api::SetDelayMisuse { .. } => {
                    *self.probes.extra.entry("misuse_calls").or_insert(0) += 1;
                    crate::oracles::misuse_call::<C>(s, &call, &mut self.viol, self.now, i);
                }
            }
        }
    }

    fn tick(&mut self, i: usize) {
        let ts = self.plan.nodes[i].tick.clone();
        let tick_no = self.nodes[i].tick_no;
        self.nodes[i].last_tick_us = self.now;
        self.enter(i);
        let is_peer = matches!(self.nodes[i].sess, Sess::Peer(_));
        if ts.poll_only {
            self.leave(i);
            self.poll_only(i);
            return;
        }
        // optional explicit poll before input (the documented loop does this)
        let mut c_pre: Option<i32> = None;
        if ts.prepoll_ppm > 0 && h(self.plan.seed, D_PREPOLL, &[i as u64, tick_no]) % 1_000_000 < ts.prepoll_ppm as u64 {
            self.probes.polls += 1;
            let r = match &mut self.nodes[i].sess {
                Sess::Peer(s) => guarded(|| s.poll_remote_clients()),
                Sess::Spec(s) => guarded(|| s.poll_remote_clients()),
            };
            if let Err(p) = r {
                self.leave(i);
                self.panic_violation(i, "poll_remote_clients()", p);
                return;
            }
            self.leave(i);
            self.after_poll(i);
            if !self.viol.is_empty() {
                return;
            }
            self.enter(i);
            if let Sess::Peer(s) = &self.nodes[i].sess {
                if s.current_state() == SessionState::Running {
                    c_pre = guarded(|| s.confirmed_frame()).ok();
                }
            }
        }
        if is_peer {
            self.do_api(i, false);
            if self.fatal || !self.viol.is_empty() {
                self.leave(i);
                return;
            }
            self.tick_peer(i, c_pre, ts.use_wait);
        } else {
            self.tick_spectator(i);
        }
    }

    fn tick_peer(&mut self, i: usize, c_pre: Option<i32>, use_wait: bool) {
        let plan = self.plan;
        let cfg = &plan.cfg;
        let locals = self.nodes[i].locals.clone();
        let node = &mut self.nodes[i];
        let Sess::Peer(s) = &mut node.sess else { unreachable!() };
        let u = s.current_frame();
        let state_before = s.current_state();
        let mut submitted: Vec<(usize, u32)> = Vec::new();
        let mut order = locals.clone();
        if cfg.shuffle_submissions && order.len() > 1 {
            let r = h(plan.seed, D_SUBMIT, &[i as u64, node.tick_no]) as usize;
            order.rotate_left(r % locals.len());
            if (r >> 8) & 1 == 1 {
                order.reverse();
            }
        }
        for (n_sub, &l) in order.iter().enumerate() {
            if n_sub == 1 {
                // delay changes that fall between two submissions of this tick
                self.do_api(i, true);
                if self.fatal || !self.viol.is_empty() {
                    self.leave(i);
                    return;
                }
            }
            let node = &mut self.nodes[i];
            let Sess::Peer(s) = &mut node.sess else { unreachable!() };
            if cfg.shuffle_submissions && h(plan.seed, D_SUBMIT, &[i as u64, node.tick_no, l as u64, 1]) % 8 == 0 {
                // a throw-away submission that the real one overwrites
                let _ = s.add_local_input(l, C::enc(0xDEAD_0000 | l as u32));
                *self.probes.extra.entry("throwaway_submissions").or_insert(0) += 1;
            }
            let att = node.attempts.entry(l).or_insert((-1, 0));
            if att.0 == u {
                att.1 += 1;
            } else {
                *att = (u, 0);
            }
            let v = input_value(plan, l, u, att.1);
            if let Err(e) = s.add_local_input(l, C::enc(v)) {
                let g = node.game.g;
                self.viol.push(Violation { class: "c16.local_input_rejected".into(), text: format!("add_local_input({l}) for a local player returned {e:?}"), t_us: self.now, node: i, frame: g });
            }
            submitted.push((l, v));
        }
        let node = &mut self.nodes[i];
        let Sess::Peer(s) = &mut node.sess else { unreachable!() };
        let g0 = node.game.g;
        let lockstep_cfg = cfg.max_prediction == 0;
        let res = if use_wait {
            let core = self.core.clone();
            // the wait loop spins on the clock: the yield hook advances this node's virtual time by
            // 1 ms and delivers what is in flight towards it and due by then (other nodes do not
            // run while this one blocks)
            ggrs::verif::set_on_yield(Some(Box::new(move || {
                let t = ggrs::verif::now_micros() + 1000;
                ggrs::verif::set_now_micros(t);
                let mut c = core.borrow_mut();
                c.now_us = t;
                c.deliver_due_to(i, t);
            })));
            let r = match self.plan.nodes[i].tick.wait_timeout_us {
                None => guarded(|| s.advance_frame_with_wait()),
                Some(d) => guarded(|| s.advance_frame_with_wait_timeout(std::time::Duration::from_micros(d))),
            };
            *self.probes.extra.entry(if lockstep_cfg { "wait_calls_lockstep" } else { "wait_calls_rollback" }).or_insert(0) += 1;
            ggrs::verif::set_on_yield(None);
            node.clock_floor = ggrs::verif::now_micros();
            r
        } else {
            guarded(|| s.advance_frame())
        };
        self.probes.polls += 1;
        let res = match res {
            Err(p) => {
                self.leave(i);
                self.panic_violation(i, "advance_frame()", p);
                return;
            }
            Ok(r) => r,
        };
        self.leave(i);
        // what the call's internal poll received and reported
        self.after_poll(i);
        let node = &mut self.nodes[i];
        let Sess::Peer(s) = &mut node.sess else { unreachable!() };
        let lockstep = cfg.max_prediction == 0;
        match res {
            Err(GgrsError::NotSynchronized) => {
                self.probes.not_synchronized_calls += 1;
                if state_before == SessionState::Running {
                    let g = node.game.g;
                    self.viol.push(Violation { class: "c12.not_synchronized_while_running".into(), text: "advance_frame returned NotSynchronized although current_state() was Running".into(), t_us: self.now, node: i, frame: g });
                }
                if s.current_state() == SessionState::Running {
                    let g = node.game.g;
                    self.viol.push(Violation { class: "c12.not_synchronized_while_running".into(), text: "advance_frame returned NotSynchronized and current_state() is Running right after".into(), t_us: self.now, node: i, frame: g });
                }
            }
            Err(e) => {
                let g = node.game.g;
                self.viol.push(Violation { class: "c02.unexpected_error".into(), text: format!("advance_frame returned {e:?} with every local input present"), t_us: self.now, node: i, frame: g });
            }
            Ok(reqs) => {
                if s.current_state() != SessionState::Running {
                    let g = node.game.g;
                    self.viol.push(Violation { class: "c12.advanced_while_synchronizing".into(), text: "advance_frame returned Ok although current_state() is Synchronizing".into(), t_us: self.now, node: i, frame: g });
                }
                // the submissions of this call reached the session's queues
                for (l, v) in &submitted {
                    if let Some(m) = self.models[*l].as_mut() {
                        let before = (m.dropped, m.filled);
                        m.submit(u, *v);
                        self.probes.dropped_submissions += m.dropped - before.0;
                        self.probes.delay_fills += m.filled - before.1;
                    }
                }
                let ctx = ExecCtx {
                    kind: if lockstep { SessKind::Lockstep } else { SessKind::Rollback },
                    num_players: cfg.num_players,
                    max_prediction: cfg.max_prediction,
                    max_advances: 1,
                    expect_first_save: !lockstep,
                    t_us: self.now,
                    node: i,
                };
                let advs = node.game.exec::<C>(reqs, &ctx, &mut self.viol);
                let cf = s.current_frame();
                if node.game.g != cf {
                    let g = node.game.g;
                    self.viol.push(Violation { class: "c02.frame_mismatch".into(), text: format!("after the last request the game is at frame {g} but current_frame() is {cf}"), t_us: self.now, node: i, frame: g });
                }
                if node.game.g == g0 {
                    if lockstep {
                        self.probes.stalls_lockstep += 1;
                    } else {
                        self.probes.stalls_prediction_limit += 1;
                    }
                }
                self.after_advance_peer(i, advs, c_pre);
            }
        }
        self.check_timesync(i);
        self.observe_readonly(i);
    }

    /// The read-only part of the API may be called at any moment and for any handle: every 16th
    /// tick of a peer asks for the statistics of every handle (players and spectators, connected
    /// or long gone) and for the handle lists. Nothing here may panic, a local player has no
    /// statistics, and the handle lists never change.
    fn observe_readonly(&mut self, i: usize) {
        if !self.viol.is_empty() || self.fatal || self.nodes[i].tick_no % 16 != 5 {
            return;
        }
        let np = self.plan.cfg.num_players;
        let n_spec = self.plan.nodes.iter().filter(|n| matches!(n.kind, NodeKind::Spectator { host, .. } if host == i)).count();
        let locals = self.nodes[i].locals.clone();
        self.enter(i);
        ggrs::verif::set_clock_bump_micros(0);
        let r = {
            let Sess::Peer(s) = &self.nodes[i].sess else { return };
            guarded(|| {
                let mut bad: Option<String> = None;
                for hnd in 0..np + n_spec + 1 {
                    let st = s.network_stats(hnd);
                    let is_local = locals.contains(&hnd);
                    let known = hnd < np + n_spec;
                    if (is_local || !known) && !matches!(st, Err(GgrsError::InvalidRequest { .. })) {
                        bad = Some(format!("network_stats({hnd}) for a {} handle returned {st:?}", if is_local { "local" } else { "unknown" }));
                    }
                    if known && !is_local && matches!(st, Err(GgrsError::InvalidRequest { .. })) {
                        bad = Some(format!("network_stats({hnd}) for a registered remote handle returned {st:?}"));
                    }
                }
                let mut l = s.local_player_handles();
                l.sort();
                let mut want = locals.clone();
                want.sort();
                if l != want || s.remote_player_handles().len() != np - locals.len() || s.spectator_handles().len() != n_spec || s.num_players() != np || s.num_spectators() != n_spec {
                    bad = Some(format!("handle lists changed: local {:?}, remote {:?}, spectators {:?}", s.local_player_handles(), s.remote_player_handles(), s.spectator_handles()));
                }
                bad
            })
        };
        self.leave(i);
        *self.probes.extra.entry("readonly_api_observations").or_insert(0) += 1;
        match r {
            Err(p) => self.panic_violation(i, "a read-only call (network_stats / handle lists)", p),
            Ok(Some(t)) => {
                let g = self.nodes[i].game.g;
                self.violate("c16.readonly_api", i, g, format!("node {i}: {t}"));
            }
            Ok(None) => {}
        }
    }

    /// C15: frames_ahead(), WaitRecommendation and network_stats() against the known lead and
    /// the known latency of the run.
    fn check_timesync(&mut self, i: usize) {
        let Some(ts) = self.plan.oracle.timesync.clone() else { return };
        if i > 1 || !self.viol.is_empty() {
            return;
        }
        let other = 1 - i;
        let cfg = &self.plan.cfg;
        let period_ms = 1000 / cfg.fps as i64;
        ggrs::verif::set_now_micros(self.now.max(self.nodes[i].clock_floor));
        ggrs::verif::set_wall_offset_ms(self.plan.nodes[i].wall_offset_ms as u128);
        let Sess::Peer(s) = &self.nodes[i].sess else { return };
        let fa = s.frames_ahead();
        let g = s.current_frame();
        let remote_handle = self.nodes[other].locals[0];
        let stats = s.network_stats(remote_handle);
        let running = s.current_state() == SessionState::Running;
        let other_fa = match &self.nodes[other].sess {
            Sess::Peer(o) => o.frames_ahead(),
            _ => 0,
        };
        // the other node's figures are read under ITS wall clock (each machine has its own)
        ggrs::verif::set_wall_offset_ms(self.plan.nodes[other].wall_offset_ms as u128);
        let other_stats = match &self.nodes[other].sess {
            Sess::Peer(o) => o.network_stats(self.nodes[i].locals[0]).ok(),
            _ => None,
        };
        ggrs::verif::set_wall_offset_ms(self.plan.nodes[i].wall_offset_ms as u128);
        // the exact lead is a real number of frames; the estimate is an integer within one frame of it
        let mut lead_milli = if i == 0 { ts.lead_milli } else { -ts.lead_milli };
        if cfg.max_prediction == 0 || ts.lead_from_counters {
            // lockstep: whoever ticks first stalls until the other side's first inputs are there, so
            // the lead is not what the tick schedule says. It is read off the two frame counters:
            // at this node's tick the other node is (time since its last tick) into its next frame.
            let per = (1_000_000 / cfg.fps as u64) as i64;
            let g_other = self.nodes[other].game.g as i64;
            let since = (self.now - self.nodes[other].last_tick_us) as i64;
            lead_milli = (g as i64 - g_other) * 1000 - since.min(per) * 1000 / per;
        }
        let (lo, hi) = (lead_milli.div_euclid(1000) as i32 - 1, (lead_milli + 999).div_euclid(1000) as i32 + 1);
        // wait recommendations reported by this call
        let new_waits: Vec<u32> = self.nodes[i].events.iter().rev().take_while(|(t, _)| *t == self.now).filter_map(|(_, e)| if let Ev::Wait { skip } = e { Some(*skip) } else { None }).collect();
        let mut bad: Vec<(&str, String)> = Vec::new();
        for skip in new_waits {
            *self.probes.extra.entry("wait_recommendations_checked").or_insert(0) += 1;
            if fa < 3 || skip as i32 != fa {
                bad.push(("c15.wait_recommendation", format!("node {i}: WaitRecommendation{{skip_frames {skip}}} raised while frames_ahead() is {fa}")));
            }
            if let Some(prev) = self.nodes[i].last_wait_frame {
                if g - prev < 60 {
                    bad.push(("c15.wait_recommendation", format!("node {i}: WaitRecommendations at frames {prev} and {g}, less than 60 frames apart")));
                }
            }
            self.nodes[i].last_wait_frame = Some(g);
        }
        // before enough data exists: an error, not numbers
        if self.now < 1_000_000 && stats.is_ok() {
            bad.push(("c15.stats_too_early", format!("node {i}: network_stats() returned numbers {} ms after the session was created", self.now / 1000)));
        }
        if std::env::var("VERIF_TRACE_TS").is_ok() {
            println!("  ts t={} node {i} frame {g} frames_ahead {fa} stats {:?}", self.now / 1000, stats.as_ref().ok().map(|s| (s.ping, s.local_frames_behind, s.remote_frames_behind)));
        }
        if self.now >= ts.measure_from_us && running {
            *self.probes.extra.entry("timesync_ticks_measured").or_insert(0) += 1;
            if fa < lo || fa > hi {
                bad.push(("c15.frames_ahead", format!("node {i} runs {:.2} frames ahead (latency {} ms, {} fps) but frames_ahead() is {fa}", lead_milli as f64 / 1000.0, ts.latency_us / 1000, cfg.fps)));
            }
            if (fa + other_fa).abs() > 1 {
                bad.push(("c15.frames_ahead_sum", format!("frames_ahead() of the two peers are {fa} and {other_fa}: the sum is more than one frame from zero")));
            }
            match &stats {
                Err(e) => bad.push(("c15.stats_missing", format!("node {i}: network_stats() still returns {e:?} {} ms into the session", self.now / 1000))),
                Ok(st) => {
                    let rtt_ms = (2 * ts.latency_us / 1000) as i64;
                    if (st.ping as i64 - rtt_ms).abs() > period_ms + 1 {
                        bad.push(("c15.ping", format!("node {i}: network_stats().ping is {} ms, the link's round trip is {rtt_ms} ms (one tick = {period_ms} ms)", st.ping)));
                    }
                    if let Some(last) = self.nodes[i].last_quality_report {
                        if st.remote_frames_behind != last {
                            bad.push(("c15.frames_behind", format!("node {i}: remote_frames_behind is {} but the last quality report received says {last}", st.remote_frames_behind)));
                        }
                    }
                    if let Some(os) = other_stats {
                        // sanity only (the other side's figure moves with every tick and every new ping sample;
                        // the exact identity is the comparison with the last report above)
                        if (st.remote_frames_behind - os.local_frames_behind).abs() > 3 {
                            bad.push(("c15.frames_behind", format!("node {i} reports remote_frames_behind {} while node {other} reports local_frames_behind {}", st.remote_frames_behind, os.local_frames_behind)));
                        }
                    }
                }
            }
        }
        for (c, t) in bad {
            self.violate(c, i, g, t);
        }
    }

    fn truth_at(&self, p: usize, f: i32) -> Option<u32> {
        self.models.get(p)?.as_ref()?.get(f)
    }

    fn after_advance_peer(&mut self, i: usize, advs: Vec<AdvRec>, c_pre: Option<i32>) {
        let cfg = &self.plan.cfg;
        let o = self.plan.oracle.clone();
        let mp = cfg.max_prediction as i32;
        let lockstep = mp == 0;
        let np = cfg.num_players;
        let (conf, conn, g) = {
            let node = &self.nodes[i];
            let Sess::Peer(s) = &node.sess else { unreachable!() };
            let conf = match guarded(|| s.confirmed_frame()) {
                Ok(c) => c,
                Err(p) => {
                    self.panic_violation(i, "confirmed_frame()", p);
                    return;
                }
            };
            let conn: Vec<(bool, i32)> = (0..np).map(|p| s.verif_connect_status(p).unwrap_or((false, -1))).collect();
            (conf, conn, node.game.g)
        };
        if conf < self.nodes[i].last_conf {
            let lc = self.nodes[i].last_conf;
            self.violate("c03.confirmed_decreased", i, g, format!("confirmed_frame() went from {lc} to {conf}"));
        }
        self.nodes[i].last_conf = conf;
        if let Some(pt) = self.plan.perturb.iter().find(|p| p.mode == PerturbMode::Consistent) {
            // every peer (the diverging one included) must have been told within a few reporting
            // intervals of confirmed frames, plus one simulated second for the reports to travel
            let interval = cfg.desync_interval as i32;
            if interval > 0 && self.plan.nodes[i].drain {
                let due = pt.frame + 4 * interval + mp + cfg.input_delay as i32;
                if conf > due && self.nodes[i].desync_due_since.is_none() {
                    self.nodes[i].desync_due_since = Some(self.now);
                }
                if let (Some(since), None) = (self.nodes[i].desync_due_since, self.nodes[i].desync_seen) {
                    if self.now > since + 1_000_000 {
                        let f0 = pt.frame;
                        let x = pt.node;
                        self.violate("c09.divergence_missed", i, g, format!("node {x}'s game diverges from frame {f0} on (interval {interval}); node {i} has confirmed frame {conf} and was still not told {} ms after passing frame {due}", (self.now - since) / 1000));
                    }
                }
            }
        }
        self.probes.max_frame = self.probes.max_frame.max(g);
        let locals = self.nodes[i].locals.clone();
        for adv in &advs {
            let f = adv.frame;
            if adv.inputs.len() != np {
                continue;
            }
            for p in 0..np {
                let (v, st) = adv.inputs[p];
                let (disc, lf) = conn[p];
                let local = locals.contains(&p);
                if st == St::Predicted {
                    self.probes.predicted_inputs += 1;
                }
                if !o.status {
                    continue;
                }
                match st {
                    St::Confirmed => {
                        match self.truth_at(p, f) {
                            None => self.violate("c03.confirmed_unknown", i, f, format!("node {i} frame {f} player {p}: value {v:#x} handed out as Confirmed but the owner has not produced an input for that frame")),
                            Some(t) if t != v => self.violate("c03.confirmed_wrong", i, f, format!("node {i} frame {f} player {p}: value {v:#x} handed out as Confirmed but the player's real input is {t:#x}")),
                            _ => {}
                        }
                        if !local && f > lf {
                            self.violate("c03.confirmed_not_received", i, f, format!("node {i} frame {f} player {p}: handed out as Confirmed but the newest frame received from that player is {lf}"));
                        }
                    }
                    St::Predicted => {
                        if local {
                            self.violate("c03.local_predicted", i, f, format!("node {i} frame {f}: local player {p} handed out as Predicted"));
                        } else if lockstep {
                            self.violate("c04.lockstep_predicted", i, f, format!("node {i} frame {f} player {p}: Predicted input in lockstep mode"));
                        } else {
                            if f <= lf {
                                self.violate("c03.predicted_but_received", i, f, format!("node {i} frame {f} player {p}: handed out as Predicted although frame {lf} has been received"));
                            }
                            let exp = if C::PREDICT_DEFAULT || lf < 0 { Some(0) } else { self.truth_at(p, lf) };
                            if exp != Some(v) {
                                self.violate("c03.prediction_wrong", i, f, format!("node {i} frame {f} player {p}: predicted {v:#x}, but the predictor applied to the newest received input (frame {lf}) gives {exp:x?}"));
                            }
                        }
                    }
                    St::Disconnected => {
                        if local {
                            self.violate("c03.local_disconnected", i, f, format!("node {i} frame {f}: local player {p} handed out as Disconnected"));
                        }
                        if v != 0 {
                            self.violate("c03.disconnected_value", i, f, format!("node {i} frame {f} player {p}: Disconnected input carries value {v:#x} instead of the default"));
                        }
                        if !disc || lf >= f {
                            self.violate("c03.disconnected_status", i, f, format!("node {i} frame {f} player {p}: handed out as Disconnected but the session's status is disconnected={disc}, last_frame={lf}"));
                        }
                    }
                }
            }
            if adv.first && o.bounds {
                if lockstep {
                    if conf < f {
                        self.violate("c04.lockstep_speculated", i, f, format!("node {i} advanced frame {f} in lockstep mode while confirmed_frame() is {conf}"));
                    }
                } else {
                    if f > conf + mp {
                        self.violate("c04.speculation", i, f, format!("node {i} simulated new frame {f} with confirmed_frame() {conf} and max_prediction {mp}"));
                    }
                    // the same bound against the ground truth of who is connected, not the session's
                    // own opinion: a player counts as connected unless its owner has stopped, or the
                    // timer model of this or any other live node (which may have told this one) has
                    // disconnected that address
                    let mut held = i32::MAX;
                    let mut limiting = None;
                    for p in 0..np {
                        let Some(owner) = self.plan.owner_of(p) else { continue };
                        let gone = owner != i
                            && (!self.nodes[owner].alive
                                || self.plan.nodes[owner].tick.stop_us.is_some_and(|t| t <= self.now)
                                || self.nodes.iter().enumerate().any(|(j, n)| j != owner && n.watch.get(&(owner as Addr)).is_some_and(|w| w.disconnected || w.disc_sent || w.api_disconnected)));
                        if !gone && conn[p].1 < held {
                            held = conn[p].1;
                            limiting = Some(p);
                        }
                    }
                    if let Some(p) = limiting {
                        if f > held + mp {
                            self.violate("c04.speculation_past_live_player", i, f, format!("node {i} simulated new frame {f} although the newest input it holds of player {p}, who is connected, is for frame {held} (max_prediction {mp}; the session's own status for that player: {:?})", conn[p]));
                        }
                    }
                    if let Some(cp) = c_pre {
                        // no packet can arrive between the explicit poll and the call's own poll at the same instant
                        let _ = cp;
                    }
                }
            }
        }
        // mispredictions: a resimulated frame whose values changed
        // (counted in game stats through rollbacks; here only the probe)
        // ---- C01: seal every frame at or below confirmed_frame()
        if o.timeline {
            let c = conf.min(g - 1);
            let mut f = self.nodes[i].game.sealed;
            while f <= c {
                let used = self.nodes[i].game.used[f as usize].clone();
                let mut exp_inputs: Vec<(u32, bool)> = Vec::with_capacity(np);
                let mut ok = true;
                for p in 0..np {
                    let (disc, lf) = conn[p];
                    let exp = if disc && f > lf { Some((0u32, true)) } else { self.truth_at(p, f).map(|t| (t, false)) };
                    match exp {
                        None => {
                            self.violate("c01.unknown_input", i, f, format!("node {i} sealed frame {f} (confirmed_frame {conf}) but player {p}'s owner has not produced an input for it"));
                            ok = false;
                        }
                        Some((t, d)) => {
                            let (v, st) = used.get(p).copied().unwrap_or((0, St::Confirmed));
                            if v != t || (st == St::Disconnected) != d {
                                self.violate(
                                    "c01.wrong_input",
                                    i,
                                    f,
                                    format!(
                                        "node {i} frame {f} player {p}: last simulation used {v:#x} ({st:?}) but the true input is {t:#x}{} [confirmed_frame {conf}, game frame {g}]",
                                        if d { " (Disconnected)" } else { "" }
                                    ),
                                );
                                ok = false;
                            }
                            exp_inputs.push((t, d));
                        }
                    }
                }
                if !ok {
                    break;
                }
                let node = &mut self.nodes[i];
                let prev = node.exp_state[f as usize];
                let next = step_state(prev, f, &exp_inputs);
                node.exp_state.push(next);
                let perturbed = node.game.perturb.as_ref().is_some_and(|(pf, _)| f >= *pf);
                if !perturbed && node.game.hist[f as usize + 1] != next {
                    let got = node.game.hist[f as usize + 1];
                    self.violate("c01.state_diverged", i, f, format!("node {i}: state after frame {f} is {got:x} but the serial replay of the true inputs gives {next:x}"));
                    break;
                }
                self.probes.sealed_frames += 1;
                f += 1;
                self.nodes[i].game.sealed = f;
            }
        }
    }

    fn tick_spectator(&mut self, i: usize) {
        let cfg = &self.plan.cfg;
        let np = cfg.num_players;
        let node = &mut self.nodes[i];
        let catchup = node.catchup;
        let max_behind = node.max_behind;
        let host = node.host;
        let Sess::Spec(s) = &mut node.sess else { unreachable!() };
        let state_before = s.current_state();
        let res = guarded(|| s.advance_frame());
        self.probes.polls += 1;
        self.leave(i);
        let res = match res {
            Err(p) => {
                self.panic_violation(i, "SpectatorSession::advance_frame()", p);
                return;
            }
            Ok(r) => r,
        };
        self.after_poll(i);
        let node = &mut self.nodes[i];
        let Sess::Spec(s) = &mut node.sess else { unreachable!() };
        let g0 = node.game.g;
        let newest = self.core.borrow().newest_input_to[i];
        let o = self.plan.oracle.clone();
        match res {
            Err(GgrsError::NotSynchronized) => {
                self.probes.not_synchronized_calls += 1;
                if state_before == SessionState::Running {
                    self.viol.push(Violation { class: "c12.not_synchronized_while_running".into(), text: "spectator advance_frame returned NotSynchronized although current_state() was Running".into(), t_us: self.now, node: i, frame: g0 });
                }
            }
            Err(GgrsError::PredictionThreshold) => {
                self.probes.spectator_waits += 1;
                let lr = s.verif_last_recv_frame();
                if o.spectator_stream && lr >= g0 {
                    self.viol.push(Violation { class: "c06.wait_with_input_buffered".into(), text: format!("spectator reports PredictionThreshold at frame {g0} although frame {lr} has been received"), t_us: self.now, node: i, frame: g0 });
                }
            }
            Err(GgrsError::SpectatorTooFarBehind) => {
                self.probes.spectator_too_far += 1;
                node.last_too_far = true;
                if o.spectator_stream && newest < g0 + 60 {
                    self.viol.push(Violation { class: "c06.too_far_behind_unjustified".into(), text: format!("spectator reports SpectatorTooFarBehind at frame {g0} but the newest frame delivered to it is {newest}"), t_us: self.now, node: i, frame: g0 });
                }
            }
            Err(e) => {
                self.viol.push(Violation { class: "c02.unexpected_error".into(), text: format!("spectator advance_frame returned {e:?}"), t_us: self.now, node: i, frame: g0 });
            }
            Ok(reqs) => {
                let ctx = ExecCtx { kind: SessKind::Spectator, num_players: np, max_prediction: cfg.max_prediction, max_advances: catchup.max(1), expect_first_save: false, t_us: self.now, node: i };
                let advs = node.game.exec::<C>(reqs, &ctx, &mut self.viol);
                let k = advs.len();
                let cf = s.current_frame();
                if node.game.g != cf + 1 {
                    let g = node.game.g;
                    self.viol.push(Violation { class: "c02.frame_mismatch".into(), text: format!("spectator: the game is at frame {g} but current_frame() (index of the last frame played) is {cf}"), t_us: self.now, node: i, frame: g });
                }
                let fb_after = guarded(|| s.frames_behind_host());
                self.probes.spectator_frames += k as u64;
                if k > 1 {
                    self.probes.spectator_catchup_calls += 1;
                }
                self.probes.max_frame = self.probes.max_frame.max(node.game.g);
                match fb_after {
                    Err(p) => {
                        self.panic_violation(i, "frames_behind_host()", p);
                        return;
                    }
                    Ok(fb) => {
                        if let Some(lv) = &self.plan.oracle.liveness {
                            if self.now + 1_000_000 >= lv.deadline_us {
                                let n = &mut self.nodes[i];
                                n.min_fb_late = n.min_fb_late.min(fb);
                            }
                        }
                        if o.spectator_stream && k > 1 && !(k <= catchup && fb + k > max_behind) {
                            let g = self.nodes[i].game.g;
                            self.violate("c06.catchup_rule", i, g, format!("spectator advanced {k} frames in one call with catchup_speed {catchup}, max_frames_behind {max_behind}, {} frames buffered before the call", fb + k));
                        }
                    }
                }
                if o.spectator_stream {
                    self.check_spectator_stream(i, host, advs);
                }
            }
        }
    }

    fn check_spectator_stream(&mut self, i: usize, host: usize, advs: Vec<AdvRec>) {
        let np = self.plan.cfg.num_players;
        let (host_conf, host_conn, host_alive) = {
            let hn = &self.nodes[host];
            let Sess::Peer(hs) = &hn.sess else { return };
            let conf = guarded(|| hs.confirmed_frame()).unwrap_or(i32::MAX);
            let conn: Vec<(bool, i32)> = (0..np).map(|p| hs.verif_connect_status(p).unwrap_or((false, -1))).collect();
            (conf, conn, hn.alive)
        };
        for adv in advs {
            let n = adv.frame;
            if !adv.first {
                self.violate("c06.repeat", i, n, format!("spectator was asked to advance frame {n} a second time"));
            }
            if host_alive && n > host_conf {
                self.violate("c06.beyond_confirmed", i, n, format!("spectator advanced frame {n} but the host's confirmed_frame() is {host_conf}"));
            }
            for p in 0..np.min(adv.inputs.len()) {
                let (v, st) = adv.inputs[p];
                let (disc, lf) = host_conn[p];
                let exp = if disc && n > lf { Some((0u32, St::Disconnected)) } else { self.truth_at(p, n).map(|t| (t, St::Confirmed)) };
                match exp {
                    None => self.violate("c06.unknown_input", i, n, format!("spectator frame {n} player {p}: the owner has not produced an input for that frame")),
                    Some((t, est)) => {
                        if v != t || st != est {
                            self.violate("c06.wrong_input", i, n, format!("spectator frame {n} player {p}: got {v:#x} ({st:?}), the host's confirmed timeline has {t:#x} ({est:?})"));
                        }
                    }
                }
            }
        }
    }

    // -------------------------------------------------------------- end of run

    fn finish(mut self) -> RunOut {
        // final drain for nodes that never drain (queue bound already checked through the accessor)
        let plan = self.plan;
        let np = plan.cfg.num_players;
        if self.viol.is_empty() && !self.fatal {
            // liveness after the last fault
            if let Some(lv) = &plan.oracle.liveness {
                // peers wait for each other: when one of the sessions in scope never got Running (its
                // handshake partner died first) the others stall by design
                let all_running = (0..self.nodes.len()).filter(|i| self.nodes[*i].alive && (lv.nodes.is_empty() || lv.nodes.contains(i))).all(|i| match &self.nodes[i].sess {
                    Sess::Peer(s) => s.current_state() == SessionState::Running,
                    Sess::Spec(s) => s.current_state() == SessionState::Running,
                });
                if plan.horizon_us >= lv.deadline_us && (lv.require_running || all_running) {
                    self.now = self.now.max(lv.deadline_us);
                    // slow is not wedged: with a window of 0 or 1 a frame costs a round trip over the
                    // slowest link between live nodes plus a tick at either end, and the measuring
                    // interval (the second half of the window) may hold only a few of those. A wedge
                    // advances none.
                    let live = |i: usize| self.nodes.get(i).is_some_and(|n| n.alive);
                    let slowest_link = plan.links.iter().filter(|l| live(l.from) && live(l.to)).map(|l| l.base_us + l.jitter_us).max().unwrap_or(0);
                    let slowest_tick = plan.nodes.iter().enumerate().filter(|(i, _)| live(*i)).map(|(_, n)| n.tick.period_us + n.tick.jitter_us).max().unwrap_or(0);
                    let half = (lv.deadline_us - lv.heal_us) / 2;
                    let slow_floor = ((half / (2 * slowest_link + 2 * slowest_tick).max(1)) as i32).max(1);
                    for i in 0..self.nodes.len() {
                        if !self.nodes[i].alive || (!lv.nodes.is_empty() && !lv.nodes.contains(&i)) {
                            continue;
                        }
                        let at_heal = self.nodes[i].frame_at_heal.unwrap_or(0);
                        let g = self.nodes[i].game.g;
                        let running = match &self.nodes[i].sess {
                            Sess::Peer(s) => s.current_state() == SessionState::Running,
                            Sess::Spec(s) => s.current_state() == SessionState::Running,
                        };
                        if !running && !lv.require_running {
                            continue;
                        }
                        if !running {
                            self.violate("c05.not_running", i, g, format!("node {i} is still Synchronizing {} ms after the last fault", (self.now - lv.heal_us) / 1000));
                        } else if g - at_heal < lv.min_frames.min(slow_floor) {
                            // a spectator that fell more than its 60-slot ring behind is told so and
                            // can never resume: reported under its own class
                            let class = if self.nodes[i].last_too_far { "c05.spectator_too_far_behind" } else { "c05.wedged" };
                            self.violate(
                                class,
                                i,
                                g,
                                format!(
                                    "node {i} advanced only {} frames (from {at_heal} to {g}) between {} ms and {} ms after the last fault (required {})",
                                    g - at_heal,
                                    (lv.deadline_us - lv.heal_us) / 2000,
                                    (lv.deadline_us - lv.heal_us) / 1000,
                                    lv.min_frames.min(slow_floor)
                                ),
                            );
                        } else if let Sess::Spec(s) = &self.nodes[i].sess {
                            let (catchup, max_behind) = (self.nodes[i].catchup, self.nodes[i].max_behind);
                            // smallest backlog seen in the last second: arrival jitter makes the instantaneous
                            // figure bounce, a spectator that really caught up touches the target repeatedly
                            let _ = s;
                            let fb = self.nodes[i].min_fb_late;
                            if lv.spectator_lag && catchup >= 2 && fb != usize::MAX && fb > max_behind + 2 {
                                self.violate("c05.spectator_lagging", i, g, format!("spectator node {i} is still {fb} frames behind its host {} ms after the last fault (max_frames_behind {max_behind}, catchup_speed {catchup})", (self.now - lv.heal_us) / 1000));
                            }
                        }
                    }
                }
            }
            // C11: after the quiet tail nothing may be stranded in the outgoing buffer beyond the
            // frames that are legitimately incomplete (the spread between the local players' delays)
            if plan.api.iter().any(|a| matches!(a.call, Api::SetDelay { .. })) && plan.oracle.liveness.is_some() {
                for i in plan.peers() {
                    if !self.nodes[i].alive {
                        continue;
                    }
                    let Sess::Peer(ss) = &self.nodes[i].sess else { continue };
                    let sizes = ss.verif_buffer_sizes();
                    let delays: Vec<usize> = self.nodes[i].locals.iter().filter_map(|l| self.models[*l].as_ref().map(|m| m.delay)).collect();
                    let spread = delays.iter().max().copied().unwrap_or(0) - delays.iter().min().copied().unwrap_or(0);
                    let g = self.nodes[i].game.g;
                    *self.probes.extra.entry("outgoing_buffers_checked_after_quiet_tail").or_insert(0) += 1;
                    if sizes.outgoing_local_input_frames > spread + 1 {
                        self.violate(
                            "c11.inputs_stranded",
                            i,
                            g,
                            format!("node {i}: {} frames ({} entries) are still queued for sending at the end of a quiet period although the local delays differ by only {spread}", sizes.outgoing_local_input_frames, sizes.outgoing_local_input_entries),
                        );
                    }
                }
            }
            // C18: silent spectators are disconnected rather than buffered for
            if plan.oracle.silent_spectators_cut {
                for sp in 0..self.nodes.len() {
                    let NodeKind::Spectator { host, .. } = plan.nodes[sp].kind else { continue };
                    let Some(stop) = plan.nodes[sp].tick.stop_us else { continue };
                    if self.now < stop {
                        continue;
                    }
                    let Sess::Peer(hs) = &self.nodes[host].sess else { continue };
                    let sizes = hs.verif_buffer_sizes();
                    let k = plan.num_spectators_of(host).iter().position(|&x| x == sp).unwrap_or(0);
                    let handle = plan.cfg.num_players + k;
                    let st = sizes.endpoints.iter().find(|(h, _)| *h == handle).map(|(_, e)| (e.state, e.pending_output));
                    let g = self.nodes[host].game.g;
                    *self.probes.extra.entry("silent_spectators_checked").or_insert(0) += 1;
                    if let Some((state, pending)) = st {
                        // the unacknowledged inputs ARE the frames confirmed since the spectator went
                        // silent: once they exceed the cap (plus what one call may add) the endpoint
                        // must have been disconnected - however slowly the host itself advances
                        if state >= 3 {
                            *self.probes.extra.entry("silent_spectators_cut_loose").or_insert(0) += 1;
                        } else if pending > 128 + plan.cfg.max_prediction + 8 {
                            self.violate("c18.silent_spectator_kept", host, g, format!("spectator node {sp} stopped polling at {} ms; {} ms later its host still treats it as connected (endpoint state {state}, {pending} unacknowledged inputs)", stop / 1000, (self.now - stop) / 1000));
                        }
                    }
                }
            }
            // C10: survivors of a dropped peer agree on its cut-off
            if plan.oracle.survivor_agreement {
                let survivors: Vec<usize> = plan.peers().into_iter().filter(|&i| self.nodes[i].alive).collect();
                let victims: Vec<usize> = plan.peers().into_iter().filter(|&i| !self.nodes[i].alive).collect();
                let vplayers: Vec<usize> = victims.iter().flat_map(|&v| self.nodes[v].locals.clone()).collect();
                let all_disconnected = survivors.iter().all(|&s| match &self.nodes[s].sess {
                    Sess::Peer(ss) => vplayers.iter().all(|&p| ss.verif_connect_status(p).is_some_and(|c| c.0)),
                    _ => true,
                });
                if all_disconnected && survivors.len() >= 2 {
                    *self.probes.extra.entry("c10_runs_compared").or_insert(0) += 1;
                    let lfs: Vec<i32> = survivors.iter().filter_map(|&s| match &self.nodes[s].sess {
                        Sess::Peer(ss) => vplayers.first().and_then(|&p| ss.verif_connect_status(p)).map(|c| c.1),
                        _ => None,
                    }).collect();
                    if lfs.windows(2).any(|w| w[0] != w[1]) {
                        *self.probes.extra.entry("c10_survivors_received_different_amounts").or_insert(0) += 1;
                    }
                    let upto = survivors.iter().map(|&s| self.nodes[s].game.sealed.min(self.nodes[s].game.g)).min().unwrap_or(0);
                    let a = survivors[0];
                    'cmp: for &b in &survivors[1..] {
                        for f in 0..upto.max(0) as usize {
                            for &p in &vplayers {
                                let (ua, ub) = (self.nodes[a].game.used[f][p], self.nodes[b].game.used[f][p]);
                                if ua.0 != ub.0 || (ua.1 == St::Disconnected) != (ub.1 == St::Disconnected) {
                                    let cls = if self.survivors_split() { "c10.survivors_disagree+split" } else { "c10.survivors_disagree" };
                                    self.violate(
                                        cls,
                                        b,
                                        f as i32,
                                        format!("frame {f}, dropped player {p}: node {a} finally used {:#x} ({:?}) but node {b} used {:#x} ({:?})", ua.0, ua.1, ub.0, ub.1),
                                    );
                                    break 'cmp;
                                }
                            }
                            if self.nodes[a].game.hist[f + 1] != self.nodes[b].game.hist[f + 1] {
                                let (x, y) = (self.nodes[a].game.hist[f + 1], self.nodes[b].game.hist[f + 1]);
                                let cls = if self.survivors_split() { "c10.survivors_disagree+split" } else { "c10.survivors_disagree" };
                                self.violate(cls, b, f as i32, format!("state after frame {f}: node {a} has {x:x}, node {b} has {y:x}"));
                                break 'cmp;
                            }
                        }
                    }
                }
            }
            // pairwise agreement on frames sealed at both peers (independent of the truth model)
            if plan.oracle.timeline {
                let peers: Vec<usize> = plan.peers();
                'outer: for (ai, &a) in peers.iter().enumerate() {
                    for &b in &peers[ai + 1..] {
                        let (na, nb) = (&self.nodes[a], &self.nodes[b]);
                        if na.game.perturb.is_some() || nb.game.perturb.is_some() {
                            continue;
                        }
                        // only comparable where both treat every player alike (no disconnects): C10 has its own oracle
                        let common = na.game.sealed.min(nb.game.sealed);
                        let any_disc = |n: &Node<C>| match &n.sess {
                            Sess::Peer(s) => (0..np).any(|p| s.verif_connect_status(p).is_some_and(|c| c.0)),
                            _ => false,
                        };
                        if any_disc(na) || any_disc(nb) {
                            continue;
                        }
                        for f in 0..=common.max(0) as usize {
                            if f < na.game.hist.len() && f < nb.game.hist.len() && na.game.hist[f] != nb.game.hist[f] {
                                let t = format!("peers {a} and {b} disagree on the state at mutually confirmed frame {f}: {:x} vs {:x}", na.game.hist[f], nb.game.hist[f]);
                                self.violate("c01.peers_disagree", a, f as i32, t);
                                break 'outer;
                            }
                        }
                    }
                }
            }
        }
        // C10 runs: mark every violation of a run in which the survivors hold different last frames
        // for the dead peer's players (the precondition of the recorded C10 finding)
        if plan.oracle.survivor_agreement && self.survivors_split() {
            for v in self.viol.iter_mut() {
                if !v.class.ends_with("+split") {
                    v.class.push_str("+split");
                }
            }
        }
        let mut probes = self.probes;
        let mut nodes = Vec::new();
        for (i, n) in self.nodes.iter_mut().enumerate() {
            probes.frames_first += n.game.stats.first_sims;
            probes.resims += n.game.stats.resims;
            probes.rollbacks += n.game.stats.rollbacks;
            probes.max_rollback_depth = probes.max_rollback_depth.max(n.game.stats.max_depth);
            probes.rollbacks_at_window += n.game.stats.depth_eq_window;
            probes.double_loads += n.game.stats.double_loads;
            probes.saves += n.game.stats.saves;
            probes.ring_wraps_input += (n.game.g.max(0) as u64) / 128;
            self.trace.add(n.game.trace.0);
            let conn = match &n.sess {
                Sess::Peer(s) => (0..np).map(|p| s.verif_connect_status(p).unwrap_or((false, -1))).collect(),
                Sess::Spec(s) => (0..np).map(|p| s.verif_host_connect_status(p).unwrap_or((false, -1))).collect(),
            };
            nodes.push(NodeObs {
                hist: std::mem::take(&mut n.game.hist),
                used: std::mem::take(&mut n.game.used),
                sealed: n.game.sealed,
                final_frame: n.game.g,
                events: std::mem::take(&mut n.events),
                req_trace: n.game.trace.0,
                alive: n.alive,
                is_peer: matches!(n.sess, Sess::Peer(_)),
                conn,
            });
            let _ = i;
        }
        probes.sim_us = self.now;
        for m in self.models.iter().flatten() {
            let _ = m;
        }
        let core = self.core.borrow();
        // the virtual clock of this thread must not leak into the next run
        ggrs::verif::set_now_micros(0);
        RunOut {
            log: core.log.clone().unwrap_or_default(),
            violations: self.viol,
            probes,
            counters: core.counters.clone(),
            fired: core.fired.clone(),
            // deliveries are hashed inside the network core (they also happen inside wait loops)
            trace_hash: mix(self.trace.0 ^ core.trace.0.rotate_left(21)),
            sched_hash: mix(self.sched.0 ^ core.sched.0.rotate_left(21)),
            nodes,
            end_us: self.now,
        }
    }
}

impl<C: SimCfg> Node<C> {
    fn new(sess: Sess<C>, locals: Vec<usize>, host: usize, catchup: usize, max_behind: usize) -> Self {
        Node {
            sess,
            game: Game::new(),
            locals,
            host,
            catchup,
            max_behind,
            alive: true,
            tick_no: 0,
            rng: 0,
            events: Vec::new(),
            last_conf: -1,
            exp_state: vec![INIT_STATE],
            attempts: BTreeMap::new(),
            api_done: Vec::new(),
            grammar: BTreeMap::new(),
            spectator_next: 0,
            clock_floor: 0,
            min_fb_late: usize::MAX,
            last_too_far: false,
            watch: BTreeMap::new(),
            was_running: false,
            desync_seen: None,
            desync_due_since: None,
            last_wait_frame: None,
            last_quality_report: None,
            frame_at_heal: None,
            cut_amount: BTreeMap::new(),
            last_tick_us: 0,
        }
    }
}

pub fn ev_name(e: &Ev) -> &'static str {
    match e {
        Ev::Synchronizing { .. } => "synchronizing",
        Ev::Synchronized { .. } => "synchronized",
        Ev::Disconnected { .. } => "disconnected",
        Ev::Interrupted { .. } => "network_interrupted",
        Ev::Resumed { .. } => "network_resumed",
        Ev::Wait { .. } => "wait_recommendation",
        Ev::Desync { .. } => "desync_detected",
    }
}

/// Executes a plan with the predictor it names.
pub fn run_plan(plan: &Plan) -> Result<RunOut, String> {
    if matches!(plan.mode, Mode::DecodeSweep { .. } | Mode::DecodeMutations { .. }) {
        return Ok(crate::sweep::run(plan));
    }
    if let Mode::Builder { calls, start } = &plan.mode {
        return Ok(crate::builder::run(plan, calls, start));
    }
    if let Mode::SyncTest { check_distance, frames, expect_reject } = plan.mode {
        return match (plan.cfg.variable_size_input, plan.cfg.predict_default) {
            (false, true) => crate::synctest::run::<CfgDefault>(plan, check_distance, frames, expect_reject),
            (false, false) => crate::synctest::run::<CfgRepeat>(plan, check_distance, frames, expect_reject),
            (true, true) => crate::synctest::run::<CfgVarDefault>(plan, check_distance, frames, expect_reject),
            (true, false) => crate::synctest::run::<CfgVarRepeat>(plan, check_distance, frames, expect_reject),
        };
    }
    match (plan.cfg.variable_size_input, plan.cfg.predict_default) {
        (false, true) => Ok(World::<CfgDefault>::new(plan)?.run()),
        (false, false) => Ok(World::<CfgRepeat>::new(plan)?.run()),
        (true, true) => Ok(World::<CfgVarDefault>::new(plan)?.run()),
        (true, false) => Ok(World::<CfgVarRepeat>::new(plan)?.run()),
    }
}
