//! C08 (b): payload sweeps through the exported codec entry point. The fault is a forged
//! packet's payload; the enumeration is over byte strings, executed against the real decoder.

use crate::alloc;
use crate::net::FaultCounters;
use crate::plan::*;
use crate::rng::{dom, h, mix};
use crate::types::Violation;
use crate::world::{guarded, short_loc, Probes, RunOut};

/// What the RLE container declares as its decoded length, computed without allocating and
/// without trusting the stream (None: malformed). Used ONLY to route payloads that would make
/// the real decoder request more than the allocator refuses into a child process.
pub fn declared_len(data: &[u8]) -> Option<u128> {
    let mut off = 0usize;
    let mut total: u128 = 0;
    while off < data.len() {
        let mut val: u128 = 0;
        let mut shift = 0u32;
        loop {
            let b = *data.get(off)?;
            off += 1;
            if shift < 120 {
                val |= ((b & 127) as u128) << shift;
            }
            shift += 7;
            if b & 128 == 0 {
                break;
            }
        }
        let val = val as u64 as u128; // the crate works in u64 (wrapping in release builds)
        if val & 1 == 1 {
            total += val >> 2;
        } else {
            let l = val >> 1;
            total += l;
            off = off.checked_add(l as usize)?;
        }
    }
    Some(total)
}

pub fn nth_bytes(mut k: u64) -> Vec<u8> {
    // 0 -> [], 1..=256 -> one byte, 257..=65792 -> two bytes, then three bytes
    if k == 0 {
        return vec![];
    }
    k -= 1;
    if k < 256 {
        return vec![k as u8];
    }
    k -= 256;
    if k < 65536 {
        return vec![(k >> 8) as u8, k as u8];
    }
    k -= 65536;
    vec![(k >> 16) as u8, (k >> 8) as u8, k as u8]
}
pub const UPTO2: u64 = 1 + 256 + 65536;
pub const UPTO3: u64 = UPTO2 + (1 << 24);

fn hex(b: &[u8]) -> String {
    b.iter().map(|x| format!("{x:02x}")).collect()
}
pub fn unhex(s: &str) -> Vec<u8> {
    (0..s.len() / 2).filter_map(|i| u8::from_str_radix(&s[2 * i..2 * i + 2], 16).ok()).collect()
}

pub enum Probe {
    Fine,
    Panic(String),
    Alloc(usize),
    Abort(String),
}

/// Decodes one payload in this process (panics are caught, allocation sizes recorded).
pub fn probe_here(reference: &[u8], payload: &[u8]) -> Probe {
    alloc::reset_max();
    let r = guarded(|| ggrs::verif::decode(reference, payload).map(|v| v.len()));
    let m = alloc::max_request();
    match r {
        Err(p) => Probe::Panic(format!("{} at {}", p.0, short_loc(&p.1))),
        Ok(_) if m > alloc::LIMIT => Probe::Alloc(m),
        Ok(_) => Probe::Fine,
    }
}

/// Decodes one payload in a child process (used when the declared length would make the
/// allocator refuse and the process abort).
pub fn probe_child(reference: &[u8], payload: &[u8]) -> Probe {
    let exe = std::env::current_exe().expect("own path");
    let out = std::process::Command::new(exe).arg("probe-decode").arg(hex(reference)).arg(hex(payload)).output();
    match out {
        Err(e) => Probe::Abort(format!("could not start child: {e}")),
        Ok(o) => {
            let s = String::from_utf8_lossy(&o.stdout).to_string();
            match o.status.code() {
                Some(0) => Probe::Fine,
                Some(3) => Probe::Panic(s.trim().to_owned()),
                Some(4) => Probe::Alloc(s.trim().parse().unwrap_or(usize::MAX)),
                other => Probe::Abort(format!("child terminated abnormally ({other:?}): the decoder aborted the process")),
            }
        }
    }
}

/// Decodes a batch of payloads in ONE child process. The child announces each payload before it
/// decodes it, so if it is killed (allocator refusal -> abort) the culprit is the last one announced.
pub fn probe_batch_child(items: &[(u64, Vec<u8>, Vec<u8>)]) -> Option<(usize, Probe)> {
    use std::io::Write;
    if items.is_empty() {
        return None;
    }
    let exe = std::env::current_exe().expect("own path");
    let mut child = std::process::Command::new(exe).arg("probe-batch").stdin(std::process::Stdio::piped()).stdout(std::process::Stdio::piped()).spawn().ok()?;
    {
        let mut input = String::new();
        for (k, r, p) in items {
            input.push_str(&format!("{k} {} {}\n", if r.is_empty() { "-".to_owned() } else { hex(r) }, if p.is_empty() { "-".to_owned() } else { hex(p) }));
        }
        let mut stdin = child.stdin.take()?;
        let _ = stdin.write_all(input.as_bytes());
    }
    let out = child.wait_with_output().ok()?;
    let text = String::from_utf8_lossy(&out.stdout).to_string();
    let mut started: Option<usize> = None;
    for line in text.lines() {
        let mut it = line.splitn(4, ' ');
        match it.next() {
            Some("START") => started = it.next().and_then(|x| x.parse().ok()),
            Some("RES") => {
                let idx: usize = it.next().and_then(|x| x.parse().ok())?;
                let code = it.next().unwrap_or("0");
                let detail = it.next().unwrap_or("").to_owned();
                started = None;
                match code {
                    "0" => {}
                    "3" => return Some((idx, Probe::Panic(detail))),
                    "4" => return Some((idx, Probe::Alloc(detail.parse().unwrap_or(usize::MAX)))),
                    _ => return Some((idx, Probe::Abort(detail))),
                }
            }
            _ => {}
        }
    }
    if !out.status.success() {
        let idx = started.unwrap_or(0);
        return Some((idx, Probe::Abort(format!("child terminated abnormally ({:?}): the decoder aborted the process", out.status.code()))));
    }
    None
}

pub fn probe_batch_main() -> i32 {
    use std::io::{BufRead, Write};
    crate::world::install_thread();
    let stdin = std::io::stdin();
    let out = std::io::stdout();
    for (i, line) in stdin.lock().lines().map_while(Result::ok).enumerate() {
        let parts: Vec<&str> = line.split(' ').collect();
        if parts.len() < 3 {
            continue;
        }
        let un = |s: &str| if s == "-" { Vec::new() } else { unhex(s) };
        let (r, p) = (un(parts[1]), un(parts[2]));
        {
            let mut o = out.lock();
            let _ = writeln!(o, "START {i}");
            let _ = o.flush();
        }
        let (code, detail) = match probe_here(&r, &p) {
            Probe::Fine => (0, String::new()),
            Probe::Panic(s) => (3, s),
            Probe::Alloc(n) => (4, n.to_string()),
            Probe::Abort(s) => (5, s),
        };
        let mut o = out.lock();
        let _ = writeln!(o, "RES {i} {code} {detail}");
        let _ = o.flush();
    }
    0
}

/// Entry point of the child process.
pub fn probe_decode_main(reference_hex: &str, payload_hex: &str) -> i32 {
    crate::world::install_thread();
    match probe_here(&unhex(reference_hex), &unhex(payload_hex)) {
        Probe::Fine => 0,
        Probe::Panic(s) => {
            println!("{s}");
            3
        }
        Probe::Alloc(n) => {
            println!("{n}");
            4
        }
        Probe::Abort(_) => 5,
    }
}

pub fn probe(reference: &[u8], payload: &[u8]) -> Probe {
    match declared_len(payload) {
        Some(n) if n > alloc::REFUSE_ABOVE as u128 / 2 => probe_child(reference, payload),
        _ => probe_here(reference, payload),
    }
}

fn violation_of(p: Probe, reference: &[u8], payload: &[u8], k: u64) -> Option<Violation> {
    let (class, what) = match p {
        Probe::Fine => return None,
        Probe::Panic(s) => ("c08.decode_panic".to_owned(), format!("panics: {s}")),
        Probe::Alloc(n) => ("c08.decode_allocation".to_owned(), format!("requests an allocation of {n} bytes")),
        Probe::Abort(s) => ("c08.decode_abort".to_owned(), s),
    };
    Some(Violation { class, text: format!("decoding payload 0x{} (reference 0x{}) {what}", hex(payload), hex(reference)), t_us: 0, node: 0, frame: k as i32 })
}

const REFS: [&[u8]; 3] = [&[], &[0, 0, 0, 0], &[0xff, 0x01, 0x80, 0x7f, 0, 0, 0xff, 0xff]];

/// A real payload: `n` frames of `size` bytes each, encoded against `reference`.
fn real_payload(seed: u64, reference: &[u8], k: u64) -> Vec<u8> {
    let d = dom("sweep.real");
    let n = 1 + h(seed, d, &[k, 1]) % 12;
    let size = if reference.is_empty() { 4 } else { reference.len() };
    let frames: Vec<Vec<u8>> = (0..n)
        .map(|f| {
            (0..size)
                .map(|b| {
                    let x = h(seed, d, &[k, 2, f, b as u64]);
                    match x % 4 {
                        0 => 0,
                        1 => 0xff,
                        2 => (x >> 8) as u8 & 3,
                        _ => (x >> 8) as u8,
                    }
                })
                .collect()
        })
        .collect();
    ggrs::verif::encode(reference, &frames)
}

fn mutate(seed: u64, k: u64, mut p: Vec<u8>) -> Vec<u8> {
    let d = dom("sweep.mut");
    for m in 0..1 + h(seed, d, &[k, 0]) % 3 {
        let x = h(seed, d, &[k, 1, m]);
        let len = p.len().max(1);
        let pos = (x >> 8) as usize % len;
        match x % 8 {
            0 if !p.is_empty() => p[pos] ^= 1 << ((x >> 40) % 8),
            1 => p.truncate(pos),
            2 => p.insert(pos.min(p.len()), (x >> 32) as u8),
            3 if !p.is_empty() => p[pos] = (x >> 32) as u8,
            4 if !p.is_empty() => p[pos] |= 0x80,
            5 => {
                // splice a long varint
                let n = 2 + (x >> 20) as usize % 9;
                let mut v: Vec<u8> = (0..n).map(|i| 0x80 | (h(seed, d, &[k, 2, m, i as u64]) as u8)).collect();
                *v.last_mut().unwrap() &= 0x7f;
                let at = pos.min(p.len());
                p.splice(at..at, v);
            }
            6 if !p.is_empty() => {
                p.remove(pos);
            }
            _ => p.push((x >> 32) as u8),
        }
    }
    p
}

pub fn run(plan: &Plan) -> RunOut {
    let mut viol = Vec::new();
    let mut probes = Probes::default();
    let mut n_eval = 0u64;
    let mut n_child = 0u64;
    match &plan.mode {
        Mode::DecodeSweep { start, count } => {
            for k in *start..*start + *count {
                let payload = nth_bytes(k);
                for r in REFS {
                    n_eval += 1;
                    if let Some(v) = violation_of(probe(r, &payload), r, &payload, k) {
                        viol.push(v);
                        break;
                    }
                }
                if !viol.is_empty() {
                    break;
                }
            }
        }
        Mode::DecodeMutations { count } => {
            let mut risky: Vec<(u64, Vec<u8>, Vec<u8>)> = Vec::new();
            for k in 0..*count {
                let r = REFS[(mix(plan.seed ^ k) % 3) as usize];
                let payload = mutate(plan.seed, k, real_payload(plan.seed, r, k));
                n_eval += 1;
                if declared_len(&payload).is_some_and(|n| n > alloc::REFUSE_ABOVE as u128 / 2) {
                    // would make the allocator refuse and the process abort: decode in a child
                    n_child += 1;
                    risky.push((k, r.to_vec(), payload));
                    continue;
                }
                if let Some(v) = violation_of(probe_here(r, &payload), r, &payload, k) {
                    viol.push(v);
                    break;
                }
            }
            if viol.is_empty() {
                if let Some((idx, p)) = probe_batch_child(&risky) {
                    let (k, r, payload) = &risky[idx.min(risky.len() - 1)];
                    if let Some(v) = violation_of(p, r, payload, *k) {
                        viol.push(v);
                    }
                }
            }
        }
        _ => unreachable!(),
    }
    probes.extra.insert("payloads_decoded", n_eval);
    probes.extra.insert("payloads_probed_in_child_process", n_child);
    RunOut {
        log: Vec::new(),
        violations: viol,
        probes,
        counters: FaultCounters::default(),
        fired: Vec::new(),
        trace_hash: mix(plan.seed ^ n_eval),
        sched_hash: mix(plan.seed ^ 0xC08),
        nodes: Vec::new(),
        end_us: 0,
    }
}
