mod alloc;
mod builder;
mod check;
mod game;
mod mirror;
mod net;
mod oracles;
mod plan;
mod props;
mod rng;
mod scenarios;
mod shrink;
mod sweep;
mod synctest;
mod truth;
mod twins;
mod types;
mod world;

#[global_allocator]
static GLOBAL: alloc::Counting = alloc::Counting;

fn main() {
    let args: Vec<String> = std::env::args().collect();
    let cmd = args.get(1).map(|s| s.as_str()).unwrap_or("");
    let code = match cmd {
        "check" => {
            let id = args.get(2).expect("property id");
            let tier = args.get(3).map(|s| s.as_str()).unwrap_or("quick");
            match props::spec(id) {
                Some(s) => check::check(s, tier),
                None => {
                    eprintln!("no check for property {id}");
                    2
                }
            }
        }
        "hashdiff" => {
            // debugging aid: run a replay's plan under two hash seeds and show the first difference of the detailed logs
            std::env::set_var("VERIF_LOG", "1");
            world::install_thread();
            let doc: serde_json::Value = serde_json::from_str(&std::fs::read_to_string(args.get(2).expect("file")).unwrap()).unwrap();
            let plan: plan::Plan = serde_json::from_value(doc["plan"].clone()).unwrap();
            let a = world::run_plan(&plan).unwrap();
            let mut t = plan.clone();
            let j: u64 = args.get(3).and_then(|s| s.parse().ok()).unwrap_or(1);
            t.cfg.hash_seed = rng::mix(plan.cfg.hash_seed ^ (j * 0x1234_5678_9abc));
            t.cfg.rng_seed = rng::mix(plan.cfg.rng_seed ^ (j * 0xfeed_f00d));
            t.cfg.hash_per_map = if j == 1 { !plan.cfg.hash_per_map } else { plan.cfg.hash_per_map };
            let b = world::run_plan(&t).unwrap();
            let n = a.log.len().min(b.log.len());
            match (0..n).find(|&i| a.log[i] != b.log[i]) {
                None => println!("logs equal over {n} lines ({} / {})", a.log.len(), b.log.len()),
                Some(i) => {
                    for k in i.saturating_sub(12)..(i + 6).min(n) {
                        if a.log[k] == b.log[k] {
                            println!("   {}", a.log[k]);
                        } else {
                            println!(" A {}\n B {}", a.log[k], b.log[k]);
                        }
                    }
                }
            }
            0
        }
        "selftest" => check::selftest(args.get(2).and_then(|s| s.parse().ok()).unwrap_or(2000)),
        "hashes" => {
            let id = args.get(2).expect("property id");
            let count: u64 = args.get(3).and_then(|s| s.parse().ok()).unwrap_or(10);
            let threads: usize = args.get(4).and_then(|s| s.parse().ok()).unwrap_or(1);
            let spec = props::spec(id).expect("known property");
            for (i, h) in check::hashes(spec, spec.default_seed, count, threads) {
                println!("{i} {h:016x}");
            }
            0
        }
        "probe-batch" => sweep::probe_batch_main(),
        "probe-decode" => sweep::probe_decode_main(args.get(2).map(|s| s.as_str()).unwrap_or(""), args.get(3).map(|s| s.as_str()).unwrap_or("")),
        "encode" => {
            // encode <reference-len> <frame as hex>...: prints the payload bytes as a JSON array
            let n: usize = args.get(2).and_then(|s| s.parse().ok()).unwrap_or(4);
            let frames: Vec<Vec<u8>> = args[3..].iter().map(|h| (0..h.len() / 2).map(|i| u8::from_str_radix(&h[2 * i..2 * i + 2], 16).unwrap()).collect()).collect();
            println!("{:?}", ggrs::verif::encode(&vec![0u8; n], &frames));
            0
        }
        "replay" => check::replay_file(args.get(2).expect("replay file")),
        "gen" => {
            let id = args.get(2).expect("property id");
            let index: u64 = args.get(3).and_then(|s| s.parse().ok()).unwrap_or(0);
            let bs: u64 = std::env::var("VERIF_SEED").ok().and_then(|s| s.parse().ok()).or(props::spec(id).map(|s| s.default_seed)).unwrap_or(1);
            let seed = check::run_seed(bs, id, index);
            let plan = scenarios::generate(id, "quick", seed, index);
            println!("{}", serde_json::to_string_pretty(&plan).unwrap());
            0
        }
        "one" => {
            world::install_thread();
            let id = args.get(2).expect("property id");
            let index: u64 = args.get(3).and_then(|s| s.parse().ok()).unwrap_or(0);
            let bs: u64 = std::env::var("VERIF_SEED").ok().and_then(|s| s.parse().ok()).or(props::spec(id).map(|s| s.default_seed)).unwrap_or(1);
            let seed = check::run_seed(bs, id, index);
            let plan = scenarios::generate(id, "quick", seed, index);
            match world::run_plan(&plan) {
                Ok(out) => {
                    println!("{}", serde_json::to_string(&check::plan_summary(&plan)).unwrap());
                    println!("end {} ms; frames {:?}; probes {:?}", out.end_us / 1000, out.nodes.iter().map(|n| n.final_frame).collect::<Vec<_>>(), out.probes);
                    println!("counters {:?}", out.counters);
                    for v in &out.violations {
                        println!("VIOL {v:?}");
                    }
                    0
                }
                Err(e) => {
                    eprintln!("{e}");
                    2
                }
            }
        }
        _ => {
            eprintln!("usage: ggrs-sim check <ID> [quick|thorough] | replay <file> | gen <ID> <index> | one <ID> <index>");
            2
        }
    };
    std::process::exit(code);
}
